#!/usr/bin/env python3
"""mkmut.py NAME PROPERTY EXPECT WHAT FILE OLD NEW [FILE OLD NEW ...]: builds selftest/NAME/{patch.diff,meta.json}
by replacing the first occurrence of OLD by NEW in /repo/FILE (in a scratch copy) and diffing."""
import sys, os, subprocess, tempfile, shutil, json
name, prop, expect, what = sys.argv[1:5]
rest = sys.argv[5:]
tmp = tempfile.mkdtemp(prefix="mkmut-")
try:
    a = os.path.join(tmp, "a"); b = os.path.join(tmp, "b")
    files = []
    for i in range(0, len(rest), 3):
        f, old, new = rest[i:i+3]
        files.append(f)
        for side in (a, b):
            os.makedirs(os.path.dirname(os.path.join(side, f)), exist_ok=True)
        if not os.path.exists(os.path.join(a, f)):
            shutil.copy(os.path.join("/repo", f), os.path.join(a, f))
            shutil.copy(os.path.join("/repo", f), os.path.join(b, f))
        s = open(os.path.join(b, f)).read()
        if old not in s:
            sys.exit(f"OLD not found in {f}: {old[:60]!r}")
        open(os.path.join(b, f), "w").write(s.replace(old, new, 1))
    r = subprocess.run(["diff", "-ruN", "a", "b"], cwd=tmp, capture_output=True, text=True)
    d = os.path.join(os.path.dirname(os.path.abspath(__file__)), "selftest", name)
    os.makedirs(d, exist_ok=True)
    open(os.path.join(d, "patch.diff"), "w").write(r.stdout)
    json.dump({"property": prop, "expect": expect, "what": what}, open(os.path.join(d, "meta.json"), "w"))
    print("wrote", d)
finally:
    shutil.rmtree(tmp)
