CLAIMS = {
 "C07": ("For all operand values (64-bit vectors / IEEE doubles, no bound): every assignment operator of interpreter/assign satisfies per-cell postconditions taken from the property text (exact +,-,*,/,% in range, bitwise, shifts for 0<=n<64, rotation = 64-bit rotation by n mod 64, boolean ops, plain assignment), and the comparison operators satisfy the duality lemmas (!= is the negation of ==, a<b iff b>a, a<=b iff b>=a) proved over the real bodies of interpreter/operator; not-set strings are falsy in && and || and equal nothing.",
         "Proved per function; NOT reached: branch selection in statement.go, regex engine, ACL longest-prefix semantics (matchesAcl: net.ParseCIDR/Contains are outside the verifier; the negation/prefix defect named in the property is therefore not decided here), TIME ordering (time.Time.Compare is an extern). Trusted: go/ssa, solvers, extern purity/determinism assumptions listed in the evidence.",
         "DESIGN.md §4 C07"),
 "C08": ("For all operand values: no reachable Go panic (nil dereference, division by zero, negative shift count, failed type assertion, index out of range, nil map write) in any function of interpreter/assign and interpreter/operator, under the sole precondition that operands are well-formed values.",
         "Covers the arithmetic edge cases of the property (proved, unbounded). NOT yet under contract: statement handlers, restart/call-depth bounds, built-in functions, include recursion. Trusted: go/ssa, solvers, AST type invariants (wf) on parser output listed in the evidence.",
         "DESIGN.md §4 C08"),
 "C13": ("Frame conditions (assigns) proved for every assignment operator (only the left operand's object may change; the right operand and every other pre-existing heap location keep their values) and for every comparison/logical/concat operator (no pre-existing location changes; results are freshly allocated).",
         "NOT yet under contract: expression evaluators (unary minus defect), call frames, by-value parameters. Frame = every heap array touched, skolemised index; objects allocated during the call are exempt.",
         "DESIGN.md §4 C13"),
}
