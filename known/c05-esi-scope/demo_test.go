// copy to interpreter/zz_demo_test.go ; go test -run TestLintCleanEsiRunsInTheSimulator ./interpreter
package interpreter

import (
	"net/http"
	"net/http/httptest"
	"testing"

	"github.com/ysugimoto/falco/v2/interpreter/context"
	"github.com/ysugimoto/falco/v2/lexer"
	"github.com/ysugimoto/falco/v2/linter"
	lcontext "github.com/ysugimoto/falco/v2/linter/context"
	"github.com/ysugimoto/falco/v2/parser"
	"github.com/ysugimoto/falco/v2/resolver"
	"github.com/ysugimoto/falco/v2/config"
)

// `esi;` in vcl_recv: the linter reports nothing, the simulator fails the request.
func TestLintCleanEsiRunsInTheSimulator(t *testing.T) {
	vcl := `
backend example { .host = "127.0.0.1"; .port = "1"; }
sub vcl_recv {
  #FASTLY RECV
  esi;
  error 200;
}
`
	tree, err := parser.New(lexer.NewFromString(vcl)).ParseVCL()
	if err != nil {
		t.Fatal(err)
	}
	l := linter.New(&config.LinterConfig{})
	l.Lint(tree, lcontext.New())
	for _, e := range l.Errors {
		if e.Severity == linter.ERROR {
			t.Fatalf("the linter rejects the program: %v", e)
		}
	}
	ip := New(context.WithResolver(resolver.NewStaticResolver("main", vcl)))
	rec := httptest.NewRecorder()
	ip.ServeHTTP(rec, httptest.NewRequest(http.MethodGet, "http://localhost", nil))
	t.Logf("status=%d", rec.Result().StatusCode)
	if rec.Result().StatusCode != 200 {
		t.Fatalf("lint-clean program fails in the simulator: status %d", rec.Result().StatusCode)
	}
}
