// copy to interpreter/zz_demo_test.go ; go test -run TestHashDirectorIgnoresCommentsInBackends ./interpreter
package interpreter

import (
	"crypto/sha256"
	"fmt"
	"sync/atomic"
	"testing"

	"github.com/ysugimoto/falco/v2/ast"
	"github.com/ysugimoto/falco/v2/interpreter/value"
	"github.com/ysugimoto/falco/v2/lexer"
	"github.com/ysugimoto/falco/v2/parser"
)

func demoDirector(t *testing.T, src string) *value.DirectorConfig {
	vcl, err := parser.New(lexer.NewFromString(src)).ParseVCL()
	if err != nil {
		t.Fatal(err)
	}
	dc := &value.DirectorConfig{Type: "hash", Name: "d", Quorum: 0}
	for _, s := range vcl.Statements {
		b, ok := s.(*ast.BackendDeclaration)
		if !ok {
			continue
		}
		h := &atomic.Bool{}
		h.Store(true)
		dc.Backends = append(dc.Backends, &value.DirectorConfigBackend{Backend: &value.Backend{Value: b, Healthy: h}, Id: b.Name.Value, Weight: 1})
	}
	return dc
}

// The backend a hash director picks for a request must not depend on a comment inside a backend declaration.
func TestHashDirectorIgnoresCommentsInBackends(t *testing.T) {
	plain := "backend b1 { .host = \"10.0.0.1\"; }\nbackend b2 { .host = \"10.0.0.2\"; }\nbackend b3 { .host = \"10.0.0.3\"; }\n"
	commented := "backend b1 { .host = \"10.0.0.1\"; }\nbackend b2 {\n  # primary origin in the second data centre\n  .host = \"10.0.0.2\";\n}\nbackend b3 { .host = \"10.0.0.3\"; }\n"
	ip := New()
	a, b := demoDirector(t, plain), demoDirector(t, commented)
	diff := 0
	for k := 0; k < 200; k++ {
		h := sha256.Sum256([]byte(fmt.Sprintf("/path/%d", k)))
		x, err1 := ip.getBackendByHash(a, h[:])
		y, err2 := ip.getBackendByHash(b, h[:])
		if err1 != nil || err2 != nil {
			t.Fatal(err1, err2)
		}
		if x.Value.Name.Value != y.Value.Name.Value {
			if diff == 0 {
				t.Logf("request key %d: %s without the comment, %s with it", k, x.Value.Name.Value, y.Value.Name.Value)
			}
			diff++
		}
	}
	if diff > 0 {
		t.Fatalf("%d of 200 request keys are routed to a different backend when a comment is added to a backend declaration", diff)
	}
}
