package main

import (
	"runtime/pprof"
	"fmt"
	"os"
	"sort"
	"strings"
	"sync"
	"time"

	"golang.org/x/tools/go/ssa"
)

func main() {
	if pf := os.Getenv("GOVC_PPROF"); pf != "" {
		f, _ := os.Create(pf)
		pprof.StartCPUProfile(f)
		defer pprof.StopCPUProfile()
		go func() { time.Sleep(100 * time.Second); pprof.StopCPUProfile(); f.Close(); os.Exit(3) }()
	}
	if len(os.Args) < 2 {
		fmt.Fprintln(os.Stderr, "usage: govc check <property> [--tier quick|thorough] | verify <pkg> [func...] | replay <file>")
		os.Exit(2)
	}
	switch os.Args[1] {
	case "verify":
		cmdVerify(os.Args[2:])
	case "check":
		os.Exit(cmdCheck(os.Args[2:]))
	case "replay":
		os.Exit(cmdReplay(os.Args[2:]))
	case "writers":
		os.Exit(cmdWriters(os.Args[2:]))
	case "why":
		os.Exit(cmdWhy(os.Args[2:]))
	case "selftest":
		os.Exit(cmdSelftest(os.Args[2:]))
	default:
		fmt.Fprintln(os.Stderr, "unknown command", os.Args[1])
		os.Exit(2)
	}
}

func repoRoot() string {
	if r := os.Getenv("GOVC_REPO"); r != "" {
		return r
	}
	return "/repo"
}

// cmdVerify: development driver. govc verify ./interpreter/assign [-safe] [FuncName...]
func cmdVerify(args []string) {
	var pats, funcs []string
	safe := false
	all := false
	for _, a := range args {
		switch {
		case a == "-safe":
			safe = true
		case a == "-all":
			all = true
		case strings.HasPrefix(a, "./") || strings.Contains(a, "/"):
			pats = append(pats, a)
		default:
			funcs = append(funcs, a)
		}
	}
	P, err := loadProgram(repoRoot(), pats)
	if err != nil {
		fmt.Fprintln(os.Stderr, err)
		os.Exit(2)
	}
	fmt.Printf("loaded in %.1fs\n", P.loadSecs)
	want := map[string]bool{}
	for _, f := range funcs {
		want[f] = true
	}
	var fns []*ssa.Function
	for fn := range P.allFuncs {
		if fn.Pkg == nil || fn.Blocks == nil {
			continue
		}
		inPat := false
		for _, p := range P.pkgs {
			if p.PkgPath == fn.Pkg.Pkg.Path() {
				inPat = true
			}
		}
		if !inPat {
			continue
		}
		k := funcKey(fn)
		if len(want) > 0 {
			if !want[k] && !want[fn.Name()] {
				continue
			}
		} else if !all && P.contractFor(fn) == nil {
			continue
		}
		if fn.Parent() != nil && len(want) == 0 {
			continue
		}
		fns = append(fns, fn)
	}
	sort.Slice(fns, func(i, j int) bool { return fns[i].String() < fns[j].String() })
	cfg := SolverCfg{fastTimeoutMs: 3000, slowTimeoutS: 25, keepDir: os.Getenv("GOVC_KEEP")}
	var mu sync.Mutex
	var wg sync.WaitGroup
	sem := make(chan struct{}, 16)
	t0 := time.Now()
	total, failed := 0, 0
	for _, fn := range fns {
		wg.Add(1)
		sem <- struct{}{}
		go func(fn *ssa.Function) {
			defer wg.Done()
			defer func() { <-sem }()
			con := P.contractFor(fn)
			s := safe || (con != nil && con.has("safe"))
			e := verifyFunction(P, fn, con, s, nil)
			td := time.Now()
			e.discharge(cfg)
			e.secs = time.Since(td).Seconds()
			if e.debugForks != nil {
				type kv struct {
					k string
					v int
				}
				var kvs []kv
				for k, v := range e.debugForks {
					kvs = append(kvs, kv{k, v})
				}
				sort.Slice(kvs, func(i, j int) bool { return kvs[i].v > kvs[j].v })
				for i, x := range kvs {
					if i < 12 {
						fmt.Printf("   forks %5d %s\n", x.v, x.k)
					}
				}
			}
			if os.Getenv("GOVC_COVER") != "" {
				fmt.Println("   dead returns:", e.coverReturns(cfg))
			}
			mu.Lock()
			defer mu.Unlock()
			nf := 0
			for _, n := range e.oblOrder {
				o := e.obls[n]
				total++
				if o.Status != "unsat" {
					nf++
					failed++
				}
			}
			fmt.Printf("%-60s paths=%-5d obls=%-4d failed=%-3d %.1fs %s\n", shortFn(fn), e.paths, len(e.oblOrder), nf, e.secs, e.aborted)
			for _, n := range e.oblOrder {
				o := e.obls[n]
				if o.Status != "unsat" {
					w := ""
					for _, c := range o.Cases {
						if c.Goal != "true" {
							w = c.Where
							break
						}
					}
					fmt.Printf("    FAIL [%s] %s  (%s, %s) @%s\n", o.Status, o.Name, o.Kind, o.Backend, w)
					if os.Getenv("GOVC_CASE") != "" && o.Model != "" {
						vals := parseGetValue(o.Model)
						for i, c := range o.Cases {
							if vals[fmt.Sprintf("case!%d", i)] == "true" {
								n := len(c.PC)
								lo := n - 14
								if lo < 0 {
									lo = 0
								}
								for _, pc := range c.PC[lo:] {
									if len(pc) > 400 {
										pc = pc[:400] + "…"
									}
									fmt.Printf("        pc: %s\n", pc)
								}
								g := c.Goal
								if len(g) > 1500 {
									g = g[:1500] + "…"
								}
								fmt.Printf("        GOAL: %s\n", g)
							}
						}
					}
					if os.Getenv("GOVC_MODEL") != "" && o.Model != "" {
						vals := parseGetValue(o.Model)
						for _, m := range e.modelTerms {
							if v, ok := vals[normTerm(m.term)]; ok {
								extra := ""
								if strings.HasSuffix(m.name, "#1") && !strings.Contains(m.name, ".") {
									var id int
									if _, err := fmt.Sscanf(v, "%d", &id); err == nil {
										if t := P.reg.tagType[id]; t != nil {
											extra = "   (" + typeName(t) + ")"
										}
									}
								}
								fmt.Printf("        %s = %s%s\n", m.name, v, extra)
							}
						}
					}
				}
			}
			if os.Getenv("GOVC_LIST") != "" {
				for _, n := range e.oblOrder {
					o := e.obls[n]
					triv := 0
					for _, c := range o.Cases {
						if c.Goal == "true" {
							triv++
						}
					}
					fmt.Printf("    obl [%s] %s cases=%d trivially-true=%d (%s)\n", o.Status, o.Name, len(o.Cases), triv, o.Backend)
				}
			}
			for _, n := range e.oblOrder {
				if o := e.obls[n]; o.Secs > 1 && os.Getenv("GOVC_TIMES") != "" {
					fmt.Printf("    slow %.1fs %s %s\n", o.Secs, o.Backend, o.Name)
				}
			}
			for _, n := range e.notes {
				fmt.Println("    note:", n)
			}
			if len(e.havocCalls) > 0 && os.Getenv("GOVC_HAVOC") != "" {
				fmt.Println("    havocked calls:", e.havocCalls)
			}
		}(fn)
	}
	wg.Wait()
	fmt.Printf("TOTAL obligations=%d failed=%d in %.1fs\n", total, failed, time.Since(t0).Seconds())
}
