package main

import (
	"fmt"
	"strings"

	"golang.org/x/tools/go/ssa"
)

// cmdWhy: govc why <function-substring> <key-substring>: prints a call-graph path from the
// function to a direct writer of a heap key (debugging aid for the effect inference).
func cmdWhy(args []string) int {
	P, err := loadProgram(repoRoot(), []string{"./..."})
	if err != nil {
		fmt.Println(err)
		return 2
	}
	g := P.vtaGraph()
	fmt.Printf("vta: %d nodes in %.1fs\n", len(g.Nodes), P.vtaSecs)
	P.buildCallGraph()
	var from *ssa.Function
	for fn := range P.allFuncs {
		if inFalco(fn) && shortFn(fn) == args[0] {
			from = fn
		}
	}
	if from == nil {
		for fn := range P.allFuncs {
			if inFalco(fn) && strings.Contains(shortFn(fn), args[0]) {
				from = fn
			}
		}
	}
	if from == nil {
		fmt.Println("function not found")
		return 2
	}
	parent := map[*ssa.Function]*ssa.Function{from: nil}
	queue := []*ssa.Function{from}
	for len(queue) > 0 {
		f := queue[0]
		queue = queue[1:]
		if !inFalco(f) && f != from {
			for _, g := range P.cgEdges[f] {
				if _, ok := parent[g]; !ok {
					parent[g] = f
					queue = append(queue, g)
				}
			}
			continue
		}
		d := P.directEffect(f)
		hit := d.All
		for k := range d.Keys {
			if strings.Contains(k, args[1]) {
				hit = true
			}
		}
		if hit {
			var path []string
			for x := f; x != nil; x = parent[x] {
				path = append([]string{shortFn(x)}, path...)
			}
			fmt.Println(strings.Join(path, "\n  -> "))
			fmt.Println("direct effect:", d.String())
			return 0
		}
		for _, g := range P.cgEdges[f] {
			if _, ok := parent[g]; !ok {
				parent[g] = f
				queue = append(queue, g)
			}
		}
	}
	fmt.Println("no writer reachable")
	return 0
}

// cmdWriters: govc writers <key-substring>: functions (falco) whose transitive effect hits the key.
func cmdWriters(args []string) int {
	P, err := loadProgram(repoRoot(), []string{"./..."})
	if err != nil {
		fmt.Println(err)
		return 2
	}
	var names []string
	for fn := range P.allFuncs {
		if !inFalco(fn) || fn.Blocks == nil {
			continue
		}
		if len(args) > 1 && !strings.Contains(shortFn(fn), args[1]) {
			continue
		}
		eff := P.effectOf(fn)
		for k := range eff.Keys {
			if strings.Contains(k, args[0]) {
				d := ""
				for dk := range P.directEffect(fn).Keys {
					if strings.Contains(dk, args[0]) {
						d = " (direct)"
					}
				}
				names = append(names, shortFn(fn)+d)
				break
			}
		}
	}
	sortStrings(names)
	for _, n := range names {
		fmt.Println(n)
	}
	fmt.Println(len(names), "functions")
	return 0
}

func sortStrings(s []string) {
	for i := 1; i < len(s); i++ {
		for j := i; j > 0 && s[j] < s[j-1]; j-- {
			s[j], s[j-1] = s[j-1], s[j]
		}
	}
}
