package main

// Write-effect inference: which heap arrays a function may write (transitively). A sound static
// over-approximation used for loop havoc and for calls to falco functions without a contract.

import (
	"go/types"
	"sort"
	"strings"

	"golang.org/x/tools/go/ssa"
)

type Effect struct {
	Except string         // with All: every array except those whose key starts with this prefix
	All  bool            // may write anything
	Ext  bool            // may write memory owned by external (non-falco) types
	Parts    []*Effect   // sub-effects that could not be merged (they carry their own Preserve list)
	Preserve []string    // heap keys containing one of these are not hit (assumed-unchanged arrays of a by-induction contract)
	Keys map[string]bool // heap-key prefixes: "F:<owner>.<field>:", "E:<elem>:", "C:<type>:", "MD:<k>:<v>", "MV:<k>:<v>:", "G:<name>:"
}

func (a *Effect) add(b *Effect) {
	if len(b.Preserve) > 0 {
		a.Parts = append(a.Parts, b)
		return
	}
	a.Parts = append(a.Parts, b.Parts...)
	if b.All {
		switch {
		case a.All && a.Except != b.Except:
			a.Except = ""
		case !a.All:
			a.All = true
			a.Except = b.Except
		}
	}
	if b.Ext {
		a.Ext = true
	}
	for k := range b.Keys {
		a.Keys[k] = true
	}
}

func (a *Effect) pure() bool {
	for _, p := range a.Parts {
		if !p.pure() {
			return false
		}
	}
	return !a.All && !a.Ext && len(a.Keys) == 0
}

// flat: the effect itself and its unmerged parts.
func (a *Effect) flat() []*Effect {
	out := []*Effect{a}
	for _, p := range a.Parts {
		out = append(out, p.flat()...)
	}
	return out
}

func (a *Effect) setAll() { a.All = true; a.Except = "" }

func (a *Effect) full() bool {
	for _, p := range a.Parts {
		if p.full() {
			return true
		}
	}
	return a.All && a.Except == "" && len(a.Preserve) == 0
}

func (a *Effect) String() string {
	if a.All && a.Except != "" {
		return "writes:anything-but-" + a.Except + "*"
	}
	if a.All {
		return "writes:anything"
	}
	var ks []string
	for k := range a.Keys {
		ks = append(ks, k)
	}
	sort.Strings(ks)
	if a.Ext {
		ks = append(ks, "<external objects>")
	}
	return "writes:{" + strings.Join(ks, " ") + "}"
}

func isFalcoTypeName(s string) bool {
	// typeName strips the module prefix: falco types look like "interpreter/value.Integer" or "ast.Meta" or "main.Runner"
	s = strings.TrimLeft(s, "*[]")
	if strings.HasPrefix(s, "map[") {
		return strings.Contains(s, "ast.") || strings.Contains(s, "/")
	}
	if i := strings.Index(s, "."); i >= 0 {
		pkg := s[:i]
		switch strings.SplitN(pkg, "/", 2)[0] {
		case "ast", "cmd", "config", "console", "dap", "debugger", "formatter", "interpreter", "lexer", "linter", "parser", "plugin", "resolver", "snippet", "tester", "token", "types", "context", "main", "__generator__":
			return true
		}
	}
	return false
}

// keyIsExternal: the array holds memory of non-falco types (stdlib structs, byte slices ...).
func keyIsExternal(key string) bool {
	switch {
	case strings.HasPrefix(key, "F:"), strings.HasPrefix(key, "C:"), strings.HasPrefix(key, "E:"):
		return !isFalcoTypeName(key[2:])
	case strings.HasPrefix(key, "MD:"), strings.HasPrefix(key, "MV:"):
		for _, part := range strings.Split(key[3:], ":") {
			if isFalcoTypeName(part) {
				return false
			}
		}
		return true
	}
	return false
}

// effectOf: union of the direct write effects of every function reachable from fn in the
// conservative call graph (static calls, interface calls by method name, dynamic calls to every
// address-taken function).
func (P *Program) effectOf(fn *ssa.Function) *Effect {
	P.mu.Lock()
	if P.effCache == nil {
		P.effCache = map[*ssa.Function]*Effect{}
	}
	if e, ok := P.effCache[fn]; ok {
		P.mu.Unlock()
		return e
	}
	P.mu.Unlock()
	eff := &Effect{Keys: map[string]bool{}}
	P.reachWalk(fn, func(f *ssa.Function) bool {
		eff.add(P.directEffect(f))
		return !eff.full()
	})
	P.mu.Lock()
	P.effCache[fn] = eff
	P.mu.Unlock()
	return eff
}

// directEffect: what the instructions of fn itself write (callees in falco excluded).
func (P *Program) directEffect(fn *ssa.Function) *Effect {
	P.mu.Lock()
	if P.dirCache == nil {
		P.dirCache = map[*ssa.Function]*Effect{}
	}
	if e, ok := P.dirCache[fn]; ok {
		P.mu.Unlock()
		return e
	}
	P.mu.Unlock()
	eff := P.computeDirect(fn)
	P.mu.Lock()
	P.dirCache[fn] = eff
	P.mu.Unlock()
	return eff
}

func (P *Program) computeDirect(fn *ssa.Function) *Effect {
	eff := &Effect{Keys: map[string]bool{}}
	if !inFalco(fn) || fn.Blocks == nil {
		if inFalco(fn) {
			eff.setAll()
			return eff
		}
		switch P.externEffect(fn, nil) {
		case "pure":
		default:
			eff.Ext = true
			// slices handed to a mutating external function may be written
			sig := fn.Signature
			for i := 0; i < sig.Params().Len(); i++ {
				if st, ok := sig.Params().At(i).Type().Underlying().(*types.Slice); ok {
					P.elemStoreEffect(eff, st.Elem())
				}
			}
		}
		return eff
	}
	if con := P.contractFor(fn); con != nil && con.has("pure") && con.Extern {
		return eff
	}
	for _, b := range fn.Blocks {
		for _, ins := range b.Instrs {
			switch x := ins.(type) {
			case *ssa.Store:
				P.storeEffect(eff, x.Addr, x.Val.Type())
			case *ssa.MapUpdate:
				if mt, ok := x.Map.Type().Underlying().(*types.Map); ok {
					k, v := typeName(mt.Key()), typeName(mt.Elem())
					eff.Keys["MD:"+k+":"+v] = true
					eff.Keys["MV:"+k+":"+v+":"] = true
				} else {
					eff.setAll()
				}
			case *ssa.Send, *ssa.Select:
				// channel operations do not write modelled memory themselves
			case ssa.CallInstruction:
				c := x.Common()
				if b, ok := c.Value.(*ssa.Builtin); ok {
					P.builtinEffect(eff, b, c)
					continue
				}
				if c.IsInvoke() {
					continue
				}
				if callee := c.StaticCallee(); callee != nil && !inFalco(callee) {
					switch P.externEffect(callee, c) {
					case "pure":
					default:
						eff.Ext = true
						for _, a := range c.Args {
							if st, ok := a.Type().Underlying().(*types.Slice); ok {
								if isFalcoTypeName(typeName(st.Elem())) || true {
									P.elemStoreEffect(eff, st.Elem())
								}
							}
							// pointer to a falco struct handed to external code (json.Unmarshal ...)
							if pt, ok := a.Type().Underlying().(*types.Pointer); ok {
								if _, isS := isStruct(pt.Elem()); isS && isFalcoTypeName(typeName(pt.Elem())) {
									P.structStoreEffect(eff, pt.Elem())
								}
							}
							if types.IsInterface(a.Type()) {
								// an interface holding a pointer to falco data (e.g. yaml/json decoding targets)
								if mi, ok := a.(*ssa.MakeInterface); ok {
									if pt, ok := mi.X.Type().Underlying().(*types.Pointer); ok {
										if _, isS := isStruct(pt.Elem()); isS && isFalcoTypeName(typeName(pt.Elem())) && P.externEffect(callee, c) == "full" {
											P.structStoreEffect(eff, pt.Elem())
										}
									}
								}
							}
						}
					}
				}
			}
		}
	}
	return eff
}

func (P *Program) builtinEffect(eff *Effect, b *ssa.Builtin, c *ssa.CallCommon) {
	switch b.Name() {
	case "append", "copy":
		if st, ok := c.Args[0].Type().Underlying().(*types.Slice); ok {
			P.elemStoreEffect(eff, st.Elem())
		} else {
			eff.setAll()
		}
	case "delete":
		if mt, ok := c.Args[0].Type().Underlying().(*types.Map); ok {
			eff.Keys["MD:"+typeName(mt.Key())+":"+typeName(mt.Elem())] = true
		}
	case "clear":
		switch u := c.Args[0].Type().Underlying().(type) {
		case *types.Map:
			eff.Keys["MD:"+typeName(u.Key())+":"+typeName(u.Elem())] = true
		case *types.Slice:
			P.elemStoreEffect(eff, u.Elem())
		}
	}
}

func (P *Program) storeEffect(eff *Effect, addr ssa.Value, vt types.Type) {
	switch a := addr.(type) {
	case *ssa.Alloc:
		if !a.Heap {
			return
		}
		// heap-allocated local (captured variable / escaping struct): owned by this call unless it
		// escapes; writes to fresh objects are invisible to the caller. Conservatively: its cell key.
		t := a.Type().Underlying().(*types.Pointer).Elem()
		if _, ok := isStruct(t); ok {
			return // fresh object
		}
		return
	case *ssa.FieldAddr:
		if root := rootAlloc(a); root != nil {
			return // field of a local / fresh struct
		}
		pt := a.X.Type().Underlying().(*types.Pointer).Elem()
		s, _ := isStruct(pt)
		f := s.Field(a.Field)
		if _, nested := isStruct(f.Type()); nested {
			// whole nested struct stored: every field of the nested type
			P.structStoreEffect(eff, f.Type())
			return
		}
		eff.Keys["F:"+typeName(pt)+"."+f.Name()+":"] = true
	case *ssa.IndexAddr:
		switch u := a.X.Type().Underlying().(type) {
		case *types.Slice:
			P.elemStoreEffect(eff, u.Elem())
		case *types.Pointer:
			if at, ok := u.Elem().Underlying().(*types.Array); ok {
				if al, ok := a.X.(*ssa.Alloc); ok && al != nil {
					return // local array (varargs)
				}
				P.elemStoreEffect(eff, at.Elem())
			} else {
				eff.setAll()
			}
		default:
			eff.setAll()
		}
	case *ssa.Global:
		eff.Keys["G:"+strings.TrimPrefix(a.Pkg.Pkg.Path(), falcoMod+"/")+"."+a.Name()+":"] = true
	default:
		// store through a pointer value (parameter, loaded pointer)
		if pt, ok := addr.Type().Underlying().(*types.Pointer); ok {
			if _, isS := isStruct(pt.Elem()); isS {
				P.structStoreEffect(eff, pt.Elem())
			} else {
				eff.Keys["C:"+typeName(pt.Elem())+":"] = true
			}
			return
		}
		eff.setAll()
	}
}

func (P *Program) structStoreEffect(eff *Effect, t types.Type) {
	s, ok := isStruct(t)
	if !ok {
		eff.setAll()
		return
	}
	for i := 0; i < s.NumFields(); i++ {
		f := s.Field(i)
		if _, nested := isStruct(f.Type()); nested {
			P.structStoreEffect(eff, f.Type())
		} else {
			eff.Keys["F:"+typeName(t)+"."+f.Name()+":"] = true
		}
	}
}

func (P *Program) elemStoreEffect(eff *Effect, et types.Type) {
	eff.Keys["E:"+typeName(et)+":"] = true
}

func (P *Program) callEffect(eff *Effect, c *ssa.CallCommon, caller *ssa.Function) {
	if b, ok := c.Value.(*ssa.Builtin); ok {
		P.builtinEffect(eff, b, c)
		return
	}
	if c.IsInvoke() {
		if P.methodAssumedPure(c.Value.Type(), c.Method.Name()) {
			return
		}
		for _, m := range P.siteCallees(caller, c) {
			eff.add(P.effectOf(m))
		}
		if !P.closedWorld(c.Value.Type()) {
			eff.Ext = true // implementers outside falco write only their own memory
		}
		return
	}
	callee := c.StaticCallee()
	if callee == nil {
		cs := P.siteCallees(caller, c)
		allFalco := len(cs) > 0
		for _, f := range cs {
			eff.add(P.effectOf(f))
			if !inFalco(f) {
				allFalco = false
			}
		}
		if !allFalco {
			// (the whole-program VTA graph resolved the function value to falco functions only:
			// nothing outside falco can be called here)
			eff.Ext = true
		}
		return
	}
	if con := P.contractFor(callee); con != nil && !con.Extern {
		if con.has("pure") {
			return
		}
		if keep := con.preserved(); len(keep) > 0 && !con.has("assigns") {
			base := P.effectOf(callee)
			eff.add(&Effect{All: base.All, Except: base.Except, Ext: base.Ext, Keys: base.Keys, Parts: base.Parts, Preserve: keep})
			return
		}
		if con.has("assigns") {
			if ce := P.contractEffect(callee, con); ce != nil {
				eff.add(ce)
				return
			}
		}
	}
	eff.add(P.effectOf(callee))
}

// havocEffect applies an inferred write effect to a state.
func (eff *Effect) hits(key string) bool {
	if isGhostKey(key) {
		return false // ghost fields change only through ghost-effects (see havocGhosts)
	}
	for _, p := range eff.Parts {
		if p.hits(key) {
			return true
		}
	}
	for _, p := range eff.Preserve {
		if strings.Contains(key, p) {
			return false
		}
	}
	if eff.All && (eff.Except == "" || !strings.HasPrefix(key, eff.Except)) {
		return true
	}
	if eff.Ext && keyIsExternal(key) {
		return true
	}
	for k := range eff.Keys {
		if strings.HasPrefix(key, k) {
			return true
		}
	}
	return false
}

func (e *Engine) havocEffect(st *State, eff *Effect, why string) {
	if eff.full() {
		e.havocHeap(st, why)
		return
	}
	if eff.pure() {
		return
	}
	e.nfresh++
	ep := e.nfresh
	for _, key := range sortedKeys(st.heap) {
		if !eff.hits(key) {
			continue
		}
		if strings.HasPrefix(key, "G:") && e.P.immutableGlobal(key) {
			continue
		}
		srt := e.keySort[key]
		if srt == "" {
			continue
		}
		n := sym(key + "@" + itoa(ep))
		e.decl(n, srt)
		old := st.heap[key]
		st.heap[key] = n
		if strings.HasPrefix(key, "F:") {
			for _, o := range st.owned {
				if e.keyBelongsTo(key, o.ty) {
					st.assume(eq(sel(n, o.ref), sel(old, o.ref)))
				}
			}
		}
	}
	// arrays not yet touched but named by the effect must not silently keep their entry identity
	st.pending = append(st.pending, pendingHavoc{eff: eff, epoch: ep})
	na := e.fresh("A", "Int")
	st.assume("(>= " + na + " " + st.A.term() + ")")
	st.A = allocCtr{na, 0}
}

type pendingHavoc struct {
	eff   *Effect
	epoch int
}

func itoa(i int) string {
	return strings.TrimSpace(strings.Replace(strings.Replace(" "+fmtInt(i), " ", "", -1), "\n", "", -1))
}

func fmtInt(i int) string {
	if i == 0 {
		return "0"
	}
	neg := i < 0
	if neg {
		i = -i
	}
	var b []byte
	for i > 0 {
		b = append([]byte{byte('0' + i%10)}, b...)
		i /= 10
	}
	if neg {
		b = append([]byte{'-'}, b...)
	}
	return string(b)
}


// contractEffect translates a declared `assigns` frame into an Effect (nil when a location form
// is not understood).
func (P *Program) contractEffect(fn *ssa.Function, con *Contract) *Effect {
	eff := &Effect{Keys: map[string]bool{}}
	ptype := map[string]types.Type{}
	for _, p := range fn.Params {
		ptype[p.Name()] = p.Type()
	}
	for _, c := range con.get("assigns") {
		for _, loc := range c.Locs {
			switch x := loc.(type) {
			case SIdent:
				switch x.Name {
				case "nothing", "fresh":
				case "external":
					eff.Ext = true
				case "foreign":
					eff.All = true // (Except set below)
					if fn.Pkg != nil {
						eff.Except = "F:" + strings.TrimPrefix(fn.Pkg.Pkg.Path(), falcoMod+"/") + "."
					}
				case "heap", "everything":
					eff.setAll()
					eff.Except = ""
					return eff
				default:
					return nil
				}
			case SSel:
				id, ok := x.X.(SIdent)
				if !ok {
					return nil
				}
				t, ok := ptype[id.Name]
				if !ok {
					return nil
				}
				pt, ok := t.Underlying().(*types.Pointer)
				if !ok {
					if types.IsInterface(t) && (x.Name == "all" || x.Name == "_") {
						for _, it := range P.implementers(t) {
							if ip, ok := it.Underlying().(*types.Pointer); ok {
								P.structStoreEffect(eff, ip.Elem())
							}
						}
						continue
					}
					return nil
				}
				if x.Name == "all" || x.Name == "_" {
					P.structStoreEffect(eff, pt.Elem())
					continue
				}
				s, ok := isStruct(pt.Elem())
				if !ok {
					return nil
				}
				found := false
				for i := 0; i < s.NumFields(); i++ {
					if s.Field(i).Name() == x.Name {
						found = true
						if _, nested := isStruct(s.Field(i).Type()); nested {
							P.structStoreEffect(eff, s.Field(i).Type())
						} else {
							eff.Keys["F:"+typeName(pt.Elem())+"."+x.Name+":"] = true
						}
					}
				}
				if !found {
					return nil
				}
			default:
				return nil
			}
		}
	}
	return eff
}


// reachWalk visits fn and every falco function reachable from it in the VTA call graph. External
// functions entered from falco code are expanded (to find callbacks into falco) only when they are
// classified "full"; "pure"/"shallow" externals are assumed not to call back code that writes
// modelled memory (fmt's String()/Error() observers etc. -- a listed assumption).
func (P *Program) reachWalk(fn *ssa.Function, visit func(*ssa.Function) bool) {
	P.buildCallGraph()
	type item struct {
		f        *ssa.Function
		inExtern bool
	}
	seen := map[*ssa.Function]bool{}
	stack := []item{{fn, false}}
	first := true
	for len(stack) > 0 {
		it := stack[len(stack)-1]
		stack = stack[:len(stack)-1]
		f := it.f
		if seen[f] {
			continue
		}
		seen[f] = true
		falco := inFalco(f)
		if falco && !first && f.Blocks != nil {
			// a function whose (checked) contract says `pure` writes nothing the caller can see
			if con := P.contractFor(f); con != nil && con.has("pure") {
				continue
			}
		}
		if falco || first || !it.inExtern {
			if !visit(f) {
				return
			}
		}
		if !falco && !it.inExtern && !first {
			// entering external code from falco code
			if P.externEffect(f, nil) != "full" {
				continue
			}
		}
		if !falco && first && P.externEffect(f, nil) != "full" {
			first = false
			continue
		}
		first = false
		for _, g := range P.cgEdges[f] {
			if !seen[g] {
				stack = append(stack, item{g, !falco})
			}
		}
	}
}

// mayHitFragment: could the effect write some array whose key contains frag? (used for arrays that
// were never touched by the verified function itself)
func (eff *Effect) mayHitFragment(frag string) bool {
	for _, p := range eff.Preserve {
		if p == frag {
			return false
		}
	}
	if eff.All {
		return true
	}
	for k := range eff.Keys {
		if strings.Contains(k, frag) || strings.Contains(frag, strings.TrimSuffix(k, ":")) {
			return true
		}
	}
	return false
}

// hitsOnlyTouched: every array of this effect that matches frag is one the verified function has
// touched itself (those are compared location by location at the return).
func (eff *Effect) hitsOnlyTouched(frag string, heap map[string]string) bool {
	if eff.All {
		return false
	}
	for k := range eff.Keys {
		if !(strings.Contains(k, frag) || strings.Contains(frag, strings.TrimSuffix(k, ":"))) {
			continue
		}
		touched := false
		for key := range heap {
			if strings.HasPrefix(key, k) {
				touched = true
			}
		}
		if !touched {
			return false
		}
	}
	return true
}
