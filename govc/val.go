package main

// Symbolic values and the memory model of govc.
//
//   scalars      Bool | (_ BitVec n) (Go ints, real widths, wrap-around) | Float64
//   strings      Int-coded (each literal a distinct numeral; unknown strings arbitrary Ints)
//   pointers     Int addresses. 0 = nil. Objects are allocated from a counter A (ghost):
//                every pointer value v of type *T read from memory satisfies
//                v == 0 || (0 < v && v + size(T) <= A).  A nested by-value struct field lives at
//                address(parent)+offset, exactly as in real memory (types.Sizes gc/amd64).
//   struct heap  one SMT array per (struct type, field, leaf): Int -> leaf sort, indexed by
//                the address of the struct that directly contains the field.
//   slices       (base, off, len, cap); elements in 2-D arrays per element type and leaf,
//                indexed by base then by absolute index (off+i).
//   maps         ref; 2-D arrays dom/val indexed by ref then key.
//   interfaces   (tag, payload): tag = type id, payload = pointer / string id / box id.

import (
	"fmt"
	"go/types"
	"sort"
	"strings"
	"sync"

	"golang.org/x/tools/go/ssa"
)

type Kind int

const (
	KBool Kind = iota
	KInt
	KFloat
	KStr
	KPtr    // first-class pointer: T = address term
	KIface  // T = payload, X[0] = tag
	KStruct // F = fields
	KSlice  // T = base, X = off,len,cap
	KMap    // T = ref
	KTuple  // F = elems
	KFunc   // Fn/Env static closure, or T = opaque id
	KAddr   // structured address (A)
	KOpaque // anything else: T = Int id
)

type Val struct {
	K   Kind
	Ty  types.Type
	T   string
	X   []string
	F   []Val
	A   *Addr
	Fn  *ssa.Function
	Env []Val
}

// Addr is a structured (non first-class) address.
type Addr struct {
	CellID int         // local cell id (0 = none)
	Global *ssa.Global // package-level variable
	// scalar field of a heap struct: Base = struct address term, Field = field object
	Base  string
	Field *types.Var
	Owner types.Type // struct type that owns Field
	// slice element: ElBase, ElIdx (absolute index term), ElTy = element type
	ElBase, ElIdx string
	ElTy          types.Type
	// path into a by-value struct stored in Cell / Global / slice element
	Path   []int
	Opaque bool
	Ty     types.Type // type of the location
}

var sizes = types.SizesFor("gc", "amd64")

func sizeOf(t types.Type) int64 {
	defer func() { recover() }()
	s := sizes.Sizeof(t)
	if s < 1 {
		return 1
	}
	return s
}

func isStruct(t types.Type) (*types.Struct, bool) {
	s, ok := t.Underlying().(*types.Struct)
	return s, ok
}

func kindOf(t types.Type) Kind {
	switch u := t.Underlying().(type) {
	case *types.Basic:
		switch {
		case u.Info()&types.IsBoolean != 0:
			return KBool
		case u.Info()&types.IsInteger != 0:
			return KInt
		case u.Info()&types.IsFloat != 0:
			return KFloat
		case u.Info()&types.IsString != 0:
			return KStr
		case u.Kind() == types.UnsafePointer:
			return KOpaque
		case u.Kind() == types.UntypedNil:
			return KPtr
		}
		return KOpaque
	case *types.Pointer:
		return KPtr
	case *types.Interface:
		return KIface
	case *types.Struct:
		return KStruct
	case *types.Slice:
		return KSlice
	case *types.Map:
		return KMap
	case *types.Tuple:
		return KTuple
	case *types.Signature:
		return KFunc
	}
	return KOpaque
}

func intInfo(t types.Type) (width int, signed bool) {
	b, ok := t.Underlying().(*types.Basic)
	if !ok {
		return 64, true
	}
	switch b.Kind() {
	case types.Int8:
		return 8, true
	case types.Uint8:
		return 8, false
	case types.Int16:
		return 16, true
	case types.Uint16:
		return 16, false
	case types.Int32, types.UntypedRune:
		return 32, true
	case types.Uint32:
		return 32, false
	case types.Int64, types.Int, types.UntypedInt:
		return 64, true
	case types.Uint64, types.Uint, types.Uintptr:
		return 64, false
	}
	return 64, true
}

func bvSort(w int) string { return fmt.Sprintf("(_ BitVec %d)", w) }

func bvLit(v uint64, w int) string {
	switch w {
	case 8:
		return fmt.Sprintf("#x%02x", v&0xff)
	case 16:
		return fmt.Sprintf("#x%04x", v&0xffff)
	case 32:
		return fmt.Sprintf("#x%08x", v&0xffffffff)
	}
	return fmt.Sprintf("#x%016x", v)
}

// Leaf describes one SMT-level component of a Go type.
type Leaf struct {
	Path []int  // field path through by-value structs
	Comp string // "", "tag", "off", "len", "cap"
	Sort string
}

var leafCache = map[types.Type][]Leaf{}
var leafMu sync.Mutex

func scalarSort(t types.Type) string {
	switch kindOf(t) {
	case KBool:
		return "Bool"
	case KInt:
		w, _ := intInfo(t)
		return bvSort(w)
	case KFloat:
		return "Float64"
	}
	return "Int"
}

// leaves flattens a type into SMT leaves (by-value structs are expanded).
func leaves(t types.Type) []Leaf {
	leafMu.Lock()
	l, ok := leafCache[t]
	leafMu.Unlock()
	if ok {
		return l
	}
	var out []Leaf
	switch kindOf(t) {
	case KStruct:
		st, _ := isStruct(t)
		for i := 0; i < st.NumFields(); i++ {
			for _, l := range leaves(st.Field(i).Type()) {
				out = append(out, Leaf{Path: append([]int{i}, l.Path...), Comp: l.Comp, Sort: l.Sort})
			}
		}
	case KIface:
		out = []Leaf{{Sort: "Int"}, {Comp: "tag", Sort: "Int"}}
	case KSlice:
		out = []Leaf{{Sort: "Int"}, {Comp: "off", Sort: bvSort(64)}, {Comp: "len", Sort: bvSort(64)}, {Comp: "cap", Sort: bvSort(64)}}
	case KTuple:
		out = []Leaf{{Sort: "Int"}}
	default:
		out = []Leaf{{Sort: scalarSort(t)}}
	}
	leafMu.Lock()
	leafCache[t] = out
	leafMu.Unlock()
	return out
}

// comps returns the flat list of SMT terms of a value, in leaves(t) order.
func (v Val) comps() []string {
	switch v.K {
	case KStruct, KTuple:
		var out []string
		for _, f := range v.F {
			out = append(out, f.comps()...)
		}
		return out
	case KIface:
		return []string{v.T, v.X[0]}
	case KSlice:
		return []string{v.T, v.X[0], v.X[1], v.X[2]}
	}
	return []string{v.T}
}

// fromComps rebuilds a value of type t from flat terms.
func fromComps(t types.Type, c []string) (Val, []string) {
	switch kindOf(t) {
	case KStruct:
		st, _ := isStruct(t)
		v := Val{K: KStruct, Ty: t}
		for i := 0; i < st.NumFields(); i++ {
			var f Val
			f, c = fromComps(st.Field(i).Type(), c)
			v.F = append(v.F, f)
		}
		return v, c
	case KIface:
		return Val{K: KIface, Ty: t, T: c[0], X: []string{c[1]}}, c[2:]
	case KSlice:
		return Val{K: KSlice, Ty: t, T: c[0], X: []string{c[1], c[2], c[3]}}, c[4:]
	}
	return Val{K: kindOf(t), Ty: t, T: c[0]}, c[1:]
}

func typeName(t types.Type) string {
	s := types.TypeString(t, func(p *types.Package) string {
		path := p.Path()
		path = strings.TrimPrefix(path, "github.com/ysugimoto/falco/v2/")
		return path
	})
	return s
}

func sym(s string) string {
	if strings.ContainsAny(s, "|\\") {
		s = strings.NewReplacer("|", "!", "\\", "!").Replace(s)
	}
	return "|" + s + "|"
}

// registries shared by all engines of a run (ids must be global so that terms are comparable)
type Registry struct {
	fns     map[string]int
	mu      sync.Mutex
	tags    map[string]int
	tagType map[int]types.Type
	strs    map[string]int
	strList []string
}

func newRegistry() *Registry {
	return &Registry{tags: map[string]int{}, tagType: map[int]types.Type{}, strs: map[string]int{}}
}

func (r *Registry) tagOf(t types.Type) string {
	k := typeName(t)
	r.mu.Lock()
	defer r.mu.Unlock()
	id, ok := r.tags[k]
	if !ok {
		id = len(r.tags) + 1
		r.tags[k] = id
		r.tagType[id] = t
	}
	return fmt.Sprint(id)
}

func (r *Registry) strID(s string) string {
	r.mu.Lock()
	defer r.mu.Unlock()
	id, ok := r.strs[s]
	if !ok {
		id = len(r.strList)
		r.strs[s] = id
		r.strList = append(r.strList, s)
	}
	return fmt.Sprint(id)
}

// ---- small term helpers -------------------------------------------------------------------

func and(ts ...string) string {
	var out []string
	for _, t := range ts {
		if t == "true" || t == "" {
			continue
		}
		if t == "false" {
			return "false"
		}
		out = append(out, t)
	}
	switch len(out) {
	case 0:
		return "true"
	case 1:
		return out[0]
	}
	return "(and " + strings.Join(out, " ") + ")"
}

func or(ts ...string) string {
	var out []string
	for _, t := range ts {
		if t == "false" || t == "" {
			continue
		}
		if t == "true" {
			return "true"
		}
		out = append(out, t)
	}
	switch len(out) {
	case 0:
		return "false"
	case 1:
		return out[0]
	}
	return "(or " + strings.Join(out, " ") + ")"
}

func not(t string) string {
	switch t {
	case "true":
		return "false"
	case "false":
		return "true"
	}
	if strings.HasPrefix(t, "(not ") && balancedInner(t[5:len(t)-1]) {
		return t[5 : len(t)-1]
	}
	return "(not " + t + ")"
}

func balancedInner(s string) bool {
	d := 0
	inq := false
	for i := 0; i < len(s); i++ {
		c := s[i]
		if c == '|' {
			inq = !inq
		}
		if inq {
			continue
		}
		if c == '(' {
			d++
		} else if c == ')' {
			d--
			if d < 0 {
				return false
			}
			if d == 0 && i != len(s)-1 {
				return false
			}
		} else if d == 0 && c == ' ' {
			return false
		}
	}
	return d == 0
}

func implies(a, b string) string {
	if a == "true" {
		return b
	}
	if a == "false" || b == "true" {
		return "true"
	}
	return "(=> " + a + " " + b + ")"
}

func ite(c, a, b string) string {
	if c == "true" {
		return a
	}
	if c == "false" {
		return b
	}
	if a == b {
		return a
	}
	return "(ite " + c + " " + a + " " + b + ")"
}

func eq(a, b string) string {
	if a == b {
		return "true"
	}
	if isLiteralTerm(a) && isLiteralTerm(b) {
		return "false" // two different literals of the same sort
	}
	return "(= " + a + " " + b + ")"
}

func isLiteralTerm(t string) bool {
	if t == "" {
		return false
	}
	if t == "true" || t == "false" {
		return true
	}
	if strings.HasPrefix(t, "#x") || strings.HasPrefix(t, "#b") {
		return true
	}
	for i := 0; i < len(t); i++ {
		if t[i] < '0' || t[i] > '9' {
			return false
		}
	}
	return true
}

func sel(arr, idx string) string { return "(select " + arr + " " + idx + ")" }
func sto(arr, idx, v string) string {
	return "(store " + arr + " " + idx + " " + v + ")"
}

func addInt(a string, k int64) string {
	if k == 0 {
		return a
	}
	return fmt.Sprintf("(+ %s %d)", a, k)
}

func sortedKeys[V any](m map[string]V) []string {
	ks := make([]string, 0, len(m))
	for k := range m {
		ks = append(ks, k)
	}
	sort.Strings(ks)
	return ks
}


// fnID: a numeral standing for the address of a top-level function (disjoint from string ids
// and far above realistic object addresses is not needed: only equality is used).
func (r *Registry) fnID(name string) string {
	r.mu.Lock()
	defer r.mu.Unlock()
	if r.fns == nil {
		r.fns = map[string]int{}
	}
	id, ok := r.fns[name]
	if !ok {
		id = len(r.fns) + 1
		r.fns[name] = id
	}
	return fmt.Sprint(1<<40 + id)
}
