package main

import (
	"fmt"
	"go/types"
	"time"

	"golang.org/x/tools/go/ssa"
)

// quickTier: set by `check --tier quick`.
var quickTier bool

// verifyFunction symbolically executes fn under its contract and returns the engine with all
// obligations generated (not yet discharged).
func verifyFunction(P *Program, fn *ssa.Function, con *Contract, safe bool, props []string) (e *Engine) {
	t0 := time.Now()
	e = newEngine(P, fn, con)
	e.wantSafe = safe
	e.props = props
	if con != nil {
		if con.FromTemplate && quickTier {
			e.maxPaths = 500 // sweep units in the quick tier: bounded exploration, reported as partial when hit
		}
		for _, c := range con.get("paths") {
			if len(c.Args) > 0 {
				fmt.Sscanf(c.Args[0], "%d", &e.maxPaths)
			}
		}
	}
	defer func() {
		if r := recover(); r != nil {
			e.aborted = fmt.Sprintf("engine panic: %v", r)
			if e.debug {
				panic(r)
			}
		}
		e.secs = time.Since(t0).Seconds()
		e.closeFeas()
	}()
	if fn.Blocks == nil {
		e.aborted = "no body"
		return e
	}
	nc := 0
	a0 := e.fresh("A", "Int")
	st := &State{heap: map[string]string{}, cells: map[int]Val{}, ncell: &nc, facts: map[string]bool{}, flags: map[string]string{}, A: allocCtr{a0, 0}}
	st.assume("(> " + a0 + " 0)")
	fr := &Frame{fn: fn, block: fn.Blocks[0], regs: map[ssa.Value]Val{}, cells: map[*ssa.Alloc]int{}}
	st.frames = []*Frame{fr}
	for _, p := range fn.Params {
		v := e.freshVal(st, "p."+p.Name(), p.Type())
		fr.regs[p] = v
		e.paramVals[p.Name()] = v
		for i, c := range v.comps() {
			e.modelTerms = append(e.modelTerms, modelTerm{fmt.Sprintf("%s#%d", p.Name(), i), c})
		}
	}
	for _, fv := range fn.FreeVars {
		v := e.freshVal(st, "fv."+fv.Name(), fv.Type())
		fr.env = append(fr.env, v)
		if e.rootFree == nil {
			e.rootFree = map[string]Val{}
		}
		e.rootFree[fv.Name()] = v
	}
	e.assumeDisjointParams(st)
	e.entry = st // requires are evaluated with old == current
	if con != nil {
		env := e.rootEnv(st, nil)
		env.fr = nil
		for _, c := range con.get("requires") {
			nerr, nnote := len(e.specErrors), len(e.notes)
			g := e.evalSpecBool(st, st, c.Expr, env)
			if c.Optional && len(e.specErrors) > nerr {
				e.specErrors, e.notes = e.specErrors[:nerr], e.notes[:nnote]
				continue
			}
			st.assume(g)
		}
	}
	e.touchGhosts(st)
	e.addParamModelTerms(st)
	e.entry = st.clone()
	if con != nil {
		env := e.rootEnv(st, nil)
		env.fr = nil
		e.applyGhostEffects(st, con, env)
	}
	if con != nil && e.activeInduction(con) != nil {
		// (a by-induction clause tagged with properties replaces the body only in their checks)
		e.inductionObligations(st, con)
		e.renameSites()
		return e
	}
	e.exec(st, 0)
	e.renameSites()
	return e
}

// inductionObligations: a contract marked `by-induction` states a two-state relation R(old, new) that
// every function outside a small "inside" set preserves. The body is not executed; instead the side
// conditions of the call-graph induction that are expressible as formulas are discharged here:
// R is reflexive (a function that writes nothing satisfies it) and transitive (a sequence of calls
// that each satisfy it satisfies it), with the requires clauses carried along as part of R. The
// remaining side conditions (who writes the footprint, who calls the inside set) are the K5
// `only-writers` / `callers` scans written next to it.
func (e *Engine) inductionObligations(st *State, con *Contract) {
	fn := e.fn
	name := shortFn(fn)
	e.inductive = e.activeInduction(con).Text
	env := e.rootEnv(st, nil)
	env.fr = nil
	props := con.Props
	// only the clauses of the property under check take part (a function may carry contracts of several)
	mine := func(kind string) []*Clause {
		var out []*Clause
		for _, c := range con.get(kind) {
			if len(e.props) == 0 || len(c.Props) == 0 && !c.Tmpl || e.propActive(c.Props) && len(c.Props) > 0 {
				out = append(out, c)
			}
		}
		return out
	}
	s0 := st.clone()
	// reflexive
	for k, c := range mine("ensures") {
		g := e.evalSpecBool(st, s0, c.Expr, env)
		e.oblige(st, fmt.Sprintf("%s#induction:reflexive#%d %s", name, k+1, c.Label), "K6", c.Text, g, "", props)
	}
	// transitive: s0 -R-> s1 -R-> s2  ==>  s0 -R-> s2   (requires hold in s0 and, as part of R, again in s1)
	s1 := st.clone()
	e.foreignOrFullHavoc(s1, fn, "induction step 1")
	na := e.fresh("A", "Int")
	s1.assume(fmt.Sprintf("(>= %s %s)", na, s1.A.term()))
	s1.A = allocCtr{na, 0}
	for _, c := range mine("ensures") {
		s1.assume(e.evalSpecBool(s1, s0, c.Expr, env))
	}
	for _, c := range mine("requires") {
		g := e.evalSpecBool(s1, s1, c.Expr, env)
		e.oblige(s1, fmt.Sprintf("%s#induction:requires-preserved %s", name, c.Label), "K6", c.Text, g, "", props)
	}
	s2 := s1.clone()
	e.foreignOrFullHavoc(s2, fn, "induction step 2")
	nb := e.fresh("A", "Int")
	s2.assume(fmt.Sprintf("(>= %s %s)", nb, s2.A.term()))
	s2.A = allocCtr{nb, 0}
	for _, c := range mine("ensures") {
		s2.assume(e.evalSpecBool(s2, s1, c.Expr, env))
	}
	for k, c := range mine("ensures") {
		g := e.evalSpecBool(s2, s0, c.Expr, env)
		e.oblige(s2, fmt.Sprintf("%s#induction:transitive#%d %s", name, k+1, c.Label), "K6", c.Text, g, "", props)
	}
	e.paths = 1
}

// addParamModelTerms: for pointer / interface parameters, also ask the model for the fields of
// the objects they point to (depth 1), so that counterexamples can be replayed.
func (e *Engine) addParamModelTerms(st *State) {
	for _, p := range e.fn.Params {
		v := e.paramVals[p.Name()]
		var targets []struct {
			t    types.Type
			addr string
			name string
		}
		switch v.K {
		case KPtr:
			if pt := e.pointee(v.Ty); pt != nil {
				targets = append(targets, struct {
					t    types.Type
					addr string
					name string
				}{pt, v.T, p.Name()})
			}
		case KIface:
			for _, t := range e.P.implementers(v.Ty) {
				if pt := e.pointee(t); pt != nil {
					targets = append(targets, struct {
						t    types.Type
						addr string
						name string
					}{pt, v.T, p.Name() + ".(" + typeName(t) + ")"})
				}
			}
		}
		for _, tg := range targets {
			s, ok := isStruct(tg.t)
			if !ok {
				continue
			}
			for i := 0; i < s.NumFields() && i < 12; i++ {
				ft := s.Field(i).Type()
				if _, nested := isStruct(ft); nested {
					continue
				}
				fv := e.loadField(st, tg.t, tg.addr, i)
				for k, c := range fv.comps() {
					e.modelTerms = append(e.modelTerms, modelTerm{fmt.Sprintf("%s.%s#%d", tg.name, s.Field(i).Name(), k), c})
				}
			}
		}
	}
}


// assumeDisjointParams: distinct objects do not overlap. For every pair of pointer / interface
// parameters: equal, or their extents are disjoint -- unless one pointee type can contain the
// other by value (then one may point into the other).
func (e *Engine) assumeDisjointParams(st *State) {
	type obj struct {
		addr string
		size int64
		ty   types.Type
	}
	var objs []obj
	for _, p := range e.fn.Params {
		v := e.paramVals[p.Name()]
		switch v.K {
		case KPtr:
			if pt := e.pointee(v.Ty); pt != nil {
				if _, ok := isStruct(pt); ok {
					objs = append(objs, obj{v.T, sizeOf(pt), pt})
				}
			}
		case KIface:
			var mx int64 = 1
			for _, t := range e.P.implementers(v.Ty) {
				if pt := e.pointee(t); pt != nil {
					if s := sizeOf(pt); s > mx {
						mx = s
					}
				}
			}
			if e.P.closedWorld(v.Ty) {
				objs = append(objs, obj{v.T, mx, nil})
			}
		}
	}
	for i := 0; i < len(objs); i++ {
		for j := i + 1; j < len(objs); j++ {
			a, b := objs[i], objs[j]
			if a.ty != nil && b.ty != nil && (containsByValue(a.ty, b.ty) || containsByValue(b.ty, a.ty)) && !types.Identical(a.ty, b.ty) {
				continue
			}
			st.assume(or(eq(a.addr, b.addr), eq(a.addr, "0"), eq(b.addr, "0"),
				"(<= "+addInt(a.addr, a.size)+" "+b.addr+")", "(<= "+addInt(b.addr, b.size)+" "+a.addr+")"))
		}
	}
}

func containsByValue(outer, inner types.Type) bool {
	s, ok := isStruct(outer)
	if !ok {
		return false
	}
	for i := 0; i < s.NumFields(); i++ {
		ft := s.Field(i).Type()
		if types.Identical(ft, inner) {
			return true
		}
		if _, ok := isStruct(ft); ok && containsByValue(ft, inner) {
			return true
		}
	}
	return false
}

// propActive: is a clause tagged with these properties in force for the check under way?
func (e *Engine) propActive(ps []string) bool {
	if len(ps) == 0 || len(e.props) == 0 {
		return true
	}
	for _, a := range e.props {
		for _, b := range ps {
			if a == b {
				return true
			}
		}
	}
	return false
}

// activeInduction: the by-induction clause (if any) that is in force for the property under check.
func (e *Engine) activeInduction(con *Contract) *Clause {
	for _, c := range con.get("by-induction") {
		if e.propActive(c.Props) {
			return c
		}
	}
	return nil
}
