package main

// Replay of counterexamples against the real code with `go test -overlay` (nothing is written
// into the repository).

import (
	"context"
	"encoding/json"
	"fmt"
	"go/types"
	"os"
	"os/exec"
	"path/filepath"
	"strconv"
	"strings"
	"time"
)

type ReplayFile struct {
	Property   string            `json:"property"`
	Obligation string            `json:"obligation"`
	Kind       string            `json:"kind"`
	Clause     string            `json:"clause"`
	Function   string            `json:"function"`
	Where      string            `json:"where"`
	Status     string            `json:"solver_status"`
	Backend    string            `json:"backend"`
	Model      map[string]string `json:"model,omitempty"`
	SolverOut  string            `json:"solver_output,omitempty"`
	Package    string            `json:"package,omitempty"`
	TestSource string            `json:"test_source,omitempty"`
	Expect     string            `json:"expect,omitempty"`
	Outcome    string            `json:"replay_outcome"`
	Output     string            `json:"replay_output,omitempty"`
}

func writeReplay(P *Program, rep *Report, v *OblResult) string {
	rf := &ReplayFile{Property: rep.Prop, Obligation: v.Name, Kind: v.Kind, Clause: v.Text, Function: v.Fn, Where: v.Where,
		Status: v.Status, Backend: v.Backend, Model: v.Model, Outcome: "no-failing-input-found"}
	raw := v.Raw
	if len(raw) > 6000 {
		raw = raw[:6000] + "…"
	}
	rf.SolverOut = raw
	if v.Status == "sat" && v.Eng != nil && len(v.Model) > 0 {
		if src, pkgDir, expect, ok := genReplayTest(P, v); ok {
			rf.TestSource, rf.Package, rf.Expect = src, pkgDir, expect
			out, reproduced := runReplay(rf)
			rf.Output = out
			if reproduced {
				rf.Outcome = "reproduced"
				replayStatus.Store(v.Name+"/replayed", "yes")
			} else {
				rf.Outcome = "not-reproduced (no-failing-input-found)"
			}
		}
	}
	path := filepath.Join(verifDir(), "replays", rep.Prop, sanitizeFile(v.Name)+".json")
	data, _ := json.MarshalIndent(rf, "", " ")
	os.MkdirAll(filepath.Dir(path), 0o755)
	os.WriteFile(path, data, 0o644)
	return path
}

// runReplay runs the stored test source against /repo. Returns output and whether the expected
// failure was observed.
func runReplay(rf *ReplayFile) (string, bool) {
	if rf.TestSource == "" || rf.Package == "" {
		return "", false
	}
	work, err := os.MkdirTemp("", "govc-replay-")
	if err != nil {
		return err.Error(), false
	}
	defer os.RemoveAll(work)
	testFile := filepath.Join(work, "zz_govc_replay_test.go")
	os.WriteFile(testFile, []byte(rf.TestSource), 0o644)
	target := filepath.Join(repoRoot(), rf.Package, "zz_govc_replay_test.go")
	ov, _ := json.Marshal(map[string]interface{}{"Replace": map[string]string{target: testFile}})
	ovFile := filepath.Join(work, "ov.json")
	os.WriteFile(ovFile, ov, 0o644)
	ctx, cancel := context.WithTimeout(context.Background(), 180*time.Second)
	defer cancel()
	cmd := exec.CommandContext(ctx, "go", "test", "-overlay", ovFile, "-vet=off", "-count=1", "-timeout", "60s", "-run", "^TestGovcReplay$", "-v", "./"+rf.Package)
	cmd.Dir = repoRoot()
	cmd.Env = append(os.Environ(), "GOFLAGS=-mod=mod", "GOPROXY=off")
	out, _ := cmd.CombinedOutput()
	s := string(out)
	if len(s) > 4000 {
		s = s[:4000]
	}
	ok := false
	switch rf.Expect {
	case "panic":
		ok = strings.Contains(s, "GOVC-REPLAY: PANIC")
		// the panic must be the one the obligation is about, not just any crash of an arbitrary input
		want := ""
		if i := strings.Index(rf.Obligation, "#"); i >= 0 {
			site := rf.Obligation[i+1:]
			if j := strings.Index(site, ":"); j >= 0 {
				site = site[:j]
			}
			switch site {
			case "nil":
				want = "nil pointer dereference"
			case "nilmap":
				want = "assignment to entry in nil map"
			case "index":
				want = "index out of range"
			case "slice":
				want = "slice bounds out of range"
			case "div0":
				want = "integer divide by zero"
			case "shift":
				want = "negative shift amount"
			case "typeassert":
				want = "interface conversion"
			case "makeslice":
				want = "out of range"
			}
		}
		if ok && want != "" && !strings.Contains(s, want) {
			ok = false
		}
	case "postcondition":
		ok = strings.Contains(s, "GOVC-REPLAY: POSTCONDITION VIOLATED")
	case "timeout":
		ok = strings.Contains(s, "test timed out") || strings.Contains(s, "panic: test timed out")
	}
	return s, ok
}

func cmdReplay(args []string) int {
	if len(args) < 1 {
		fmt.Fprintln(os.Stderr, "usage: govc replay <file>")
		return 2
	}
	data, err := os.ReadFile(args[0])
	if err != nil {
		fmt.Fprintln(os.Stderr, err)
		return 2
	}
	var rf ReplayFile
	if err := json.Unmarshal(data, &rf); err != nil {
		fmt.Fprintln(os.Stderr, err)
		return 2
	}
	fmt.Printf("obligation: %s\nclause: %s\nsolver: %s (%s)\n", rf.Obligation, rf.Clause, rf.Status, rf.Backend)
	if rf.TestSource == "" {
		fmt.Println("no executable counterexample stored (no-failing-input-found); solver output:")
		fmt.Println(rf.SolverOut)
		return 1
	}
	out, ok := runReplay(&rf)
	fmt.Println(out)
	if ok {
		fmt.Println("REPRODUCED on the real code")
		return 1
	}
	fmt.Println("not reproduced")
	return 0
}

// ---- test generation -----------------------------------------------------------------------

type gen struct {
	P       *Program
	pkg     *types.Package
	imports map[string]string // path -> name
	model   map[string]string
	ok      bool
}

func (g *gen) qual(p *types.Package) string {
	if p == g.pkg {
		return ""
	}
	g.imports[p.Path()] = p.Name()
	return p.Name()
}

func (g *gen) typeStr(t types.Type) string { return types.TypeString(t, g.qual) }

func bvToInt(s string, signed bool, w int) (string, bool) {
	s = strings.TrimSpace(s)
	var u uint64
	switch {
	case strings.HasPrefix(s, "#x"):
		v, err := strconv.ParseUint(s[2:], 16, 64)
		if err != nil {
			return "", false
		}
		u = v
	case strings.HasPrefix(s, "#b"):
		v, err := strconv.ParseUint(s[2:], 2, 64)
		if err != nil {
			return "", false
		}
		u = v
	default:
		return "", false
	}
	if signed {
		shift := uint(64 - w)
		return fmt.Sprint(int64(u<<shift) >> shift), true
	}
	return fmt.Sprint(u), true
}

func fpToGo(s string) (string, bool) {
	s = strings.TrimSpace(s)
	switch {
	case strings.HasPrefix(s, "(fp "):
		parts := strings.Fields(strings.Trim(s, "()"))
		if len(parts) != 4 {
			return "", false
		}
		bits := ""
		for _, p := range parts[1:] {
			switch {
			case strings.HasPrefix(p, "#b"):
				bits += p[2:]
			case strings.HasPrefix(p, "#x"):
				v, _ := strconv.ParseUint(p[2:], 16, 64)
				bits += fmt.Sprintf("%0*b", 4*len(p[2:]), v)
			}
		}
		v, err := strconv.ParseUint(bits, 2, 64)
		if err != nil {
			return "", false
		}
		return fmt.Sprintf("math.Float64frombits(0x%x)", v), true
	case strings.Contains(s, "+zero"):
		return "0.0", true
	case strings.Contains(s, "-zero"):
		return "math.Copysign(0, -1)", true
	case strings.Contains(s, "+oo"):
		return "math.Inf(1)", true
	case strings.Contains(s, "-oo"):
		return "math.Inf(-1)", true
	case strings.Contains(s, "NaN"):
		return "math.NaN()", true
	}
	return "", false
}

func (g *gen) scalar(name string, t types.Type) (string, bool) {
	mv, ok := g.model[name+"#0"]
	if !ok {
		return "", false
	}
	switch kindOf(t) {
	case KBool:
		return mv, mv == "true" || mv == "false"
	case KInt:
		w, signed := intInfo(t)
		s, ok := bvToInt(mv, signed, w)
		if !ok {
			return "", false
		}
		return fmt.Sprintf("%s(%s)", g.typeStr(t), s), true
	case KFloat:
		s, ok := fpToGo(mv)
		if ok {
			g.imports["math"] = "math"
			return fmt.Sprintf("%s(%s)", g.typeStr(t), s), true
		}
	case KStr:
		id, err := strconv.Atoi(strings.Trim(mv, "() -"))
		if err == nil {
			g.P.reg.mu.Lock()
			defer g.P.reg.mu.Unlock()
			if !strings.Contains(mv, "-") && id < len(g.P.reg.strList) {
				return fmt.Sprintf("%s(%q)", g.typeStr(t), g.P.reg.strList[id]), true
			}
			return fmt.Sprintf("%s(%q)", g.typeStr(t), fmt.Sprintf("s%d", id)), true
		}
	}
	return "", false
}

// value builds a Go expression for parameter/field `name` of type t from the model.
func (g *gen) value(name string, t types.Type, depth int) (string, bool) {
	switch kindOf(t) {
	case KBool, KInt, KFloat, KStr:
		return g.scalar(name, t)
	case KIface:
		tagS, ok := g.model[name+"#1"]
		if !ok {
			return "", false
		}
		tag, err := strconv.Atoi(strings.TrimSpace(tagS))
		if err != nil {
			return "", false
		}
		if tag == 0 {
			return "nil", true
		}
		g.P.reg.mu.Lock()
		dt := g.P.reg.tagType[tag]
		g.P.reg.mu.Unlock()
		if dt == nil {
			return "", false
		}
		pt, isPtr := dt.Underlying().(*types.Pointer)
		if !isPtr {
			return "", false
		}
		return g.structLit(name+".("+typeName(dt)+")", pt.Elem(), depth)
	case KPtr:
		pv, ok := g.model[name+"#0"]
		if ok && strings.TrimSpace(pv) == "0" {
			return "nil", true
		}
		pt, _ := t.Underlying().(*types.Pointer)
		if pt == nil {
			return "", false
		}
		return g.structLit(name, pt.Elem(), depth)
	case KSlice, KMap:
		return "nil", true
	}
	return "", false
}

func (g *gen) structLit(prefix string, st types.Type, depth int) (string, bool) {
	s, ok := isStruct(st)
	if !ok || depth > 1 {
		return "", false
	}
	var fs []string
	for i := 0; i < s.NumFields(); i++ {
		f := s.Field(i)
		if !f.Exported() && f.Pkg() != g.pkg {
			continue
		}
		switch kindOf(f.Type()) {
		case KBool, KInt, KFloat, KStr:
			if v, ok := g.scalar(prefix+"."+f.Name(), f.Type()); ok {
				fs = append(fs, f.Name()+": "+v)
			}
		}
	}
	return "&" + g.typeStr(st) + "{" + strings.Join(fs, ", ") + "}", true
}

func genReplayTest(P *Program, v *OblResult) (src, pkgDir, expect string, ok bool) {
	fn := v.Eng.fn
	if fn.Pkg == nil || fn.Parent() != nil {
		return
	}
	g := &gen{P: P, pkg: fn.Pkg.Pkg, imports: map[string]string{"testing": "testing", "fmt": "fmt"}, model: v.Model}
	var decls, args []string
	params := fn.Params
	recv := ""
	if fn.Signature.Recv() != nil {
		rv, ok2 := g.value(params[0].Name(), params[0].Type(), 0)
		if !ok2 || rv == "nil" {
			return
		}
		decls = append(decls, fmt.Sprintf("recv := %s", rv))
		recv = "recv."
		params = params[1:]
	}
	for i, p := range params {
		val, ok2 := g.value(p.Name(), p.Type(), 0)
		if !ok2 {
			return
		}
		an := fmt.Sprintf("a%d", i)
		decls = append(decls, fmt.Sprintf("var %s %s = %s", an, g.typeStr(p.Type()), val))
		args = append(args, an)
	}
	switch v.Kind {
	case "K1":
		expect = "panic"
	default:
		return
	}
	var sb strings.Builder
	sb.WriteString("package " + fn.Pkg.Pkg.Name() + "\n\nimport (\n")
	for path, name := range g.imports {
		sb.WriteString(fmt.Sprintf("\t%s %q\n", name, path))
	}
	sb.WriteString(")\n\n// generated by govc from the solver's counterexample for\n// " + strings.ReplaceAll(v.Name, "\n", " ") + "\n")
	sb.WriteString("func TestGovcReplay(t *testing.T) {\n")
	sb.WriteString("\tdefer func() {\n\t\tif r := recover(); r != nil {\n\t\t\tfmt.Println(\"GOVC-REPLAY: PANIC:\", r)\n\t\t}\n\t}()\n")
	for _, d := range decls {
		sb.WriteString("\t" + d + "\n")
	}
	call := recv + fn.Name() + "(" + strings.Join(args, ", ") + ")"
	if fn.Signature.Results().Len() > 0 {
		var rs []string
		for i := 0; i < fn.Signature.Results().Len(); i++ {
			rs = append(rs, fmt.Sprintf("r%d", i))
		}
		sb.WriteString("\t" + strings.Join(rs, ", ") + " := " + call + "\n")
		sb.WriteString("\tfmt.Println(\"GOVC-REPLAY: returned\", " + strings.Join(rs, ", ") + ")\n")
	} else {
		sb.WriteString("\t" + call + "\n\tfmt.Println(\"GOVC-REPLAY: returned\")\n")
	}
	sb.WriteString("}\n")
	rel := strings.TrimPrefix(fn.Pkg.Pkg.Path(), falcoMod)
	rel = strings.TrimPrefix(rel, "/")
	if rel == "" {
		rel = "."
	}
	return sb.String(), rel, expect, true
}
