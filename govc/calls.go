package main

// Calls: contracts, inlining with merge, extern models, havoc; returns and defers.

import (
	"fmt"
	"go/token"
	"go/types"
	"regexp"
	"sort"
	"strings"

	"golang.org/x/tools/go/ssa"
)

const falcoMod = "github.com/ysugimoto/falco/v2"

func inFalco(fn *ssa.Function) bool {
	if fn == nil {
		return false
	}
	p := fn.Pkg
	if p == nil && fn.Parent() != nil {
		return inFalco(fn.Parent())
	}
	if p == nil {
		if o := fn.Origin(); o != nil && o != fn {
			return inFalco(o)
		}
		if fn.Object() != nil && fn.Object().Pkg() != nil {
			return strings.HasPrefix(fn.Object().Pkg().Path(), falcoMod)
		}
		return false
	}
	return strings.HasPrefix(p.Pkg.Path(), falcoMod)
}

func (e *Engine) bindResult(st *State, res ssa.Value, v Val) {
	if res == nil {
		return
	}
	if _, isTuple := res.Type().(*types.Tuple); isTuple && v.K != KTuple {
		return
	}
	e.set(st, res, v)
}

func (e *Engine) doCall(st *State, fr *Frame, res ssa.Value, c *ssa.CallCommon, ins ssa.Instruction) ([]*State, bool) {
	var args []Val
	if c.IsInvoke() {
		recv := e.get(st, c.Value)
		for _, a := range c.Args {
			args = append(args, e.get(st, a))
		}
		return e.invoke(st, fr, res, c, recv, args, ins.Pos())
	}
	for _, a := range c.Args {
		args = append(args, e.get(st, a))
	}
	if b, ok := c.Value.(*ssa.Builtin); ok {
		e.builtin(st, fr, res, b, c, args, ins.Pos())
		return nil, true
	}
	callee := c.StaticCallee()
	var env []Val
	if callee == nil {
		fv := e.get(st, c.Value)
		if fv.Fn != nil {
			callee, env = fv.Fn, fv.Env
		}
	} else if mc, ok := c.Value.(*ssa.MakeClosure); ok {
		fv := e.get(st, mc)
		env = fv.Env
	}
	if callee == nil {
		// dynamic function value
		e.callAssertHooks(st, fr, "<dynamic>", args, ins.Pos())
		eff := &Effect{Keys: map[string]bool{}}
		e.P.callEffect(eff, c, fr.fn)
		e.havocGhosts(st, e.P.siteCallees(fr.fn, c), false)
		for _, a := range args {
			e.escape(st, a)
		}
		e.havocCalls["dynamic call ("+effSummary(eff)+")"]++
		e.havocEffect(st, eff, "dynamic call in "+shortFn(fr.fn))
		if rt := e.resultType(c); rt != nil {
			rv := e.freshVal(st, "r", rt)
			e.bindResult(st, res, rv)
			e.dynamicEnsures(st, fr, c, rv, ins.Pos())
		}
		return nil, true
	}
	return e.callStatic(st, fr, res, callee, env, args, c, ins.Pos())
}

// dynamicEnsures implements `dynamic-ensures LABEL`: at a call through a function value, when every
// function the call can reach (VTA call graph) carries an `ensures [LABEL]` clause with the same text
// - each of them is verified against it as its own unit - that clause is assumed for the results.
// A possible callee without the clause is a failed K5 obligation.
func (e *Engine) dynamicEnsures(st *State, fr *Frame, c *ssa.CallCommon, rv Val, pos token.Pos) {
	if e.con == nil || fr == nil || fr.fn != e.fn {
		return
	}
	for _, cl := range e.con.get("dynamic-ensures") {
		if len(cl.Args) == 0 || (len(cl.Props) > 0 && !e.sharesProp(cl.Props)) {
			continue
		}
		label := cl.Args[0]
		callees := e.P.siteCallees(fr.fn, c)
		var miss []string
		var found *Clause
		var foundFn *ssa.Function
		for _, g := range callees {
			var hit *Clause
			if g.Synthetic != "" && g.Object() != nil { // bound-method wrapper: the method itself
				if mf, ok := g.Object().(*types.Func); ok {
					if f := e.P.prog.FuncValue(mf); f != nil {
						g = f
					}
				}
			}
			if gc := e.P.contractFor(g); gc != nil {
				for _, ec := range gc.get("ensures") {
					if ec.Label == label {
						hit = ec
					}
				}
			}
			switch {
			case hit == nil:
				miss = append(miss, shortFn(g))
			case found == nil:
				found, foundFn = hit, g
			case hit.Text != found.Text:
				miss = append(miss, shortFn(g)+" (different text)")
			}
		}
		name, where := e.siteName(fr, "dyn", pos, "every callee ensures "+label)
		if len(callees) == 0 || len(miss) > 0 {
			sort.Strings(miss)
			e.oblige(st, name, "K5", fmt.Sprintf("every function this call can reach carries `ensures [%s]` (callees=%d, without it: %s)", label, len(callees), strings.Join(miss, ", ")), "false", where, cl.Props)
			continue
		}
		e.oblige(st, name, "K5", fmt.Sprintf("every function this call can reach carries `ensures [%s]` (%d callees, each verified against it)", label, len(callees)), "true", where, cl.Props)
		var rs []Val
		if rv.K == KTuple {
			rs = rv.F
		} else {
			rs = []Val{rv}
		}
		env := e.calleeEnv(foundFn, nil, nil)
		e.bindResults(env, foundFn.Signature, rs)
		nerr := len(e.specErrors)
		g := e.evalSpecBool(st, st, found.Expr, env)
		if len(e.specErrors) == nerr {
			st.assume(g)
		}
	}
}

func (e *Engine) resultType(c *ssa.CallCommon) types.Type {
	sig := c.Signature()
	switch sig.Results().Len() {
	case 0:
		return nil
	case 1:
		return sig.Results().At(0).Type()
	}
	return sig.Results()
}

func (e *Engine) callStatic(st *State, fr *Frame, res ssa.Value, callee *ssa.Function, env []Val, args []Val, c *ssa.CallCommon, pos token.Pos) ([]*State, bool) {
	name := callee.String()
	e.callAssertHooks(st, fr, shortFn(callee), args, pos)
	// 1. built-in models of external functions
	e.poolCall = nil
	if e.externModel(st, res, callee, args, c) {
		e.usedExterns[name] = true
		return nil, true
	}
	if e.poolCall != nil {
		nf := e.poolCall
		e.poolCall = nil
		return e.inline(st, fr, res, nf, nil, nil)
	}
	// 2. contract
	if con := e.P.contractFor(callee); con != nil && !con.has("inline") && !e.forceInline(callee) {
		e.applyContract(st, fr, res, callee, con, args, env, pos)
		return nil, true
	}
	if fr != nil && fr.fn == e.fn {
		e.unboundedRecursion(st, fr, callee, pos)
	}
	// 3. inline
	if e.canInline(callee, st) {
		return e.inline(st, fr, res, callee, env, args)
	}
	// 4. havoc exactly what the callee (and everything it can reach) may write
	e.havocGhosts(st, []*ssa.Function{callee}, false)
	eff := e.P.effectOf(callee)
	if inFalco(callee) {
		e.havocCalls[shortFn(callee)+" ("+effSummary(eff)+")"]++
	} else {
		switch e.P.externEffect(callee, c) {
		case "pure":
			e.usedExterns[name+" (assumed pure)"] = true
			if rt := e.resultType(c); rt != nil {
				e.bindResult(st, res, e.pureResult(st, "ext."+name, args, rt, e.P.deterministic(callee)))
			}
			return nil, true
		case "shallow":
			e.usedExterns[name+" (assumed to write only through its arguments)"] = true
			e.havocCall(st, res, c, args, "extern", false)
			return nil, true
		default:
			e.usedExterns[name+" (external: writes external memory and calls back what it is given)"] = true
		}
	}
	for _, a := range args {
		e.escape(st, a)
	}
	if !inFalco(callee) {
		for _, a := range args {
			e.havocReach(st, a)
		}
	}
	e.havocEffect(st, eff, "no contract: "+shortFn(callee))
	if rt := e.resultType(c); rt != nil {
		e.bindResult(st, res, e.freshVal(st, "r", rt))
	}
	return nil, true
}

func effSummary(eff *Effect) string {
	if eff.full() {
		return "writes:anything"
	}
	n := len(eff.Keys)
	if n <= 6 {
		return eff.String()
	}
	return fmt.Sprintf("writes:%d arrays", n)
}

// forceInline: the root contract asks for callee bodies instead of their contracts
// (`inline-calls` = all falco callees, or `inline-calls Name...`). Used by lemma functions.
func (e *Engine) forceInline(callee *ssa.Function) bool {
	if e.con == nil || callee.Blocks == nil || !inFalco(callee) {
		return false
	}
	if con := e.P.contractFor(callee); con != nil && con.Extern {
		return false // abstracted by an assumed contract: never executed
	}
	for _, c := range e.con.get("inline-calls") {
		if len(c.Args) == 0 {
			return true
		}
		for _, a := range c.Args {
			if a == callee.Name() || a == funcKey(callee) {
				return true
			}
		}
	}
	return false
}

func (e *Engine) canInline(callee *ssa.Function, st *State) bool {
	if callee.Blocks == nil {
		return false
	}
	if !inFalco(callee) {
		// real standard-library code is executed when a contract file asks for it (`extern F inline`)
		if con := e.P.contractFor(callee); con != nil && con.has("inline") {
			for _, f := range st.frames {
				if f.fn == callee {
					return false
				}
			}
			return len(st.frames) < 8
		}
		return false
	}
	if e.forceInline(callee) {
		for _, f := range st.frames {
			if f.fn == callee {
				return false
			}
		}
		return len(st.frames) < 8
	}
	if con := e.P.contractFor(callee); con != nil && con.has("noinline") {
		return false
	}
	for _, f := range st.frames {
		if f.fn == callee {
			return false
		}
	}
	if len(st.frames) >= 6 {
		return false
	}
	n := 0
	for _, b := range callee.Blocks {
		n += len(b.Instrs)
	}
	if con := e.P.contractFor(callee); con != nil && con.has("inline") {
		return true
	}
	if callee.Parent() != nil { // closures are always inlined
		return n < 1500
	}
	samePkg := callee.Pkg != nil && e.fn.Pkg != nil && callee.Pkg == e.fn.Pkg
	if !samePkg {
		// other packages: only tiny helpers (getters, predicates); anything bigger needs a contract
		return n <= 40 && len(e.P.loopsOf(callee)) == 0
	}
	if len(e.P.loopsOf(callee)) > 0 {
		return n <= 60
	}
	return n <= 80
}

func (e *Engine) newFrame(st *State, callee *ssa.Function, env []Val, args []Val, res ssa.Value) *Frame {
	nf := &Frame{fn: callee, block: callee.Blocks[0], regs: map[ssa.Value]Val{}, cells: map[*ssa.Alloc]int{}, env: env, call: res}
	for i, p := range callee.Params {
		if i < len(args) {
			a := args[i]
			if a.Ty == nil || a.K != KAddr {
				a = e.retype(a, p.Type())
			}
			nf.regs[p] = a
		}
	}
	return nf
}

func (e *Engine) inline(st *State, fr *Frame, res ssa.Value, callee *ssa.Function, env []Val, args []Val) ([]*State, bool) {
	depth := len(st.frames)
	prePC := len(st.pc)
	nf := e.newFrame(st, callee, env, args, res)
	st.frames = append(st.frames, nf)
	subs := e.exec(st, depth)
	if e.aborted != "" {
		return nil, false
	}
	if len(subs) > 1 {
		if m := e.merge(subs, prePC, res); m != nil {
			return []*State{m}, false
		}
	}
	return subs, false
}

// merge joins the return states of an inlined call into one when they differ only in a few
// components (result, a handful of cells / heap arrays).
func (e *Engine) merge(subs []*State, prePC int, res ssa.Value) *State {
	if len(subs) > 64 {
		return nil
	}
	base := subs[0]
	nfr := len(base.frames)
	conds := make([]string, len(subs))
	var factsOf []string
	for i, s := range subs {
		if len(s.frames) != nfr || len(s.pc) < prePC || s.A != base.A {
			return nil
		}
		if len(s.owned) != len(base.owned) || len(s.flags) != len(base.flags) {
			return nil
		}
		for k, v := range s.flags {
			if base.flags[k] != v {
				return nil
			}
		}
		if len(s.top().defers) != len(base.top().defers) {
			return nil
		}
		cs, fs := s.split(prePC)
		conds[i] = and(cs...)
		factsOf = append(factsOf, and(fs...))
	}
	// differing heap keys
	keys := map[string]bool{}
	for _, s := range subs {
		for k := range s.heap {
			keys[k] = true
		}
	}
	diffHeap := []string{}
	for k := range keys {
		t0, ok0 := base.heap[k]
		same := true
		for _, s := range subs[1:] {
			t, ok := s.heap[k]
			if ok != ok0 || t != t0 {
				same = false
				break
			}
		}
		if !same {
			diffHeap = append(diffHeap, k)
		}
	}
	if len(diffHeap) > 12 {
		return nil
	}
	// differing cells
	diffCells := []int{}
	for id, v0 := range base.cells {
		same := true
		for _, s := range subs[1:] {
			v, ok := s.cells[id]
			if !ok || !valEq(v, v0) {
				same = false
				break
			}
		}
		if !same {
			diffCells = append(diffCells, id)
		}
	}
	if len(diffCells) > 12 {
		return nil
	}
	m := base.clone()
	m.pc = m.pc[:prePC]
	m.facts = map[string]bool{}
	for _, p := range m.pc {
		m.facts[p] = true
	}
	m.assume(or(conds...))
	for i := range subs {
		m.assume(implies(conds[i], factsOf[i]))
	}
	for k := range m.conds {
		if k >= prePC {
			delete(m.conds, k)
		}
	}
	chain := func(get func(s *State) (Val, bool)) (Val, bool) {
		last, ok := get(subs[len(subs)-1])
		if !ok {
			return Val{}, false
		}
		acc := last
		for i := len(subs) - 2; i >= 0; i-- {
			v, ok := get(subs[i])
			if !ok || v.K != acc.K {
				return Val{}, false
			}
			if v.K == KAddr || (v.K == KFunc && v.Fn != acc.Fn) {
				if !valEq(v, acc) {
					return Val{}, false
				}
				continue
			}
			acc = e.iteVal(conds[i], v, acc)
		}
		return acc, true
	}
	for _, k := range diffHeap {
		srt := e.keySort[k]
		for _, s := range subs {
			if _, ok := s.heap[k]; !ok {
				e.heapGet(s, k, srt)
			}
		}
		v, ok := chain(func(s *State) (Val, bool) { return Val{K: KOpaque, T: s.heap[k]}, true })
		if !ok {
			return nil
		}
		m.heap[k] = v.T
	}
	for _, id := range diffCells {
		v, ok := chain(func(s *State) (Val, bool) { v, ok := s.cells[id]; return v, ok })
		if !ok {
			return nil
		}
		m.cells[id] = v
	}
	if res != nil {
		v, ok := chain(func(s *State) (Val, bool) { v, ok := s.top().regs[res]; return v, ok })
		if !ok {
			return nil
		}
		m.top().regs[res] = v
	}
	for _, s := range subs {
		m.imprecise = append(m.imprecise, s.imprecise[len(base.imprecise):]...)
	}
	return m
}

func valEq(a, b Val) bool {
	if a.K != b.K || a.T != b.T || len(a.X) != len(b.X) || len(a.F) != len(b.F) || a.Fn != b.Fn {
		return false
	}
	for i := range a.X {
		if a.X[i] != b.X[i] {
			return false
		}
	}
	for i := range a.F {
		if !valEq(a.F[i], b.F[i]) {
			return false
		}
	}
	if (a.A == nil) != (b.A == nil) {
		return false
	}
	if a.A != nil {
		x, y := a.A, b.A
		if x.CellID != y.CellID || x.Global != y.Global || x.Base != y.Base || x.Field != y.Field || x.ElBase != y.ElBase || x.ElIdx != y.ElIdx || x.Opaque != y.Opaque || len(x.Path) != len(y.Path) {
			return false
		}
		for i := range x.Path {
			if x.Path[i] != y.Path[i] {
				return false
			}
		}
	}
	return true
}

func (e *Engine) doReturn(st *State, rs []Val) []*State {
	fr := st.top()
	st.frames = st.frames[:len(st.frames)-1]
	if len(st.frames) == 0 {
		st.results = rs
		e.finish(st, rs, fr)
		return []*State{st}
	}
	if fr.call != nil {
		switch len(rs) {
		case 0:
		case 1:
			e.bindResult(st, fr.call, rs[0])
		default:
			e.bindResult(st, fr.call, Val{K: KTuple, Ty: fr.call.Type(), F: rs})
		}
	}
	return []*State{st}
}

func (e *Engine) pushDefer(st *State, fr *Frame, d *ssa.Defer) {
	df := deferred{common: &d.Call, pos: d.Pos()}
	if d.Call.IsInvoke() {
		df.fnval = e.get(st, d.Call.Value)
	} else if _, ok := d.Call.Value.(*ssa.Builtin); ok {
	} else if callee := d.Call.StaticCallee(); callee != nil {
		df.callee = callee
		if mc, ok := d.Call.Value.(*ssa.MakeClosure); ok {
			df.env = e.get(st, mc).Env
		}
	} else {
		fv := e.get(st, d.Call.Value)
		df.callee, df.env = fv.Fn, fv.Env
	}
	for _, a := range d.Call.Args {
		df.args = append(df.args, e.get(st, a))
	}
	fr.defers = append(fr.defers, df)
}

func (e *Engine) runDefers(st *State, fr *Frame) ([]*State, bool) {
	if len(fr.defers) == 0 {
		return nil, true
	}
	d := fr.defers[len(fr.defers)-1]
	fr.defers = fr.defers[:len(fr.defers)-1]
	fr.idx-- // re-execute RunDefers until the stack is empty
	if d.common.IsInvoke() {
		return e.invoke(st, fr, nil, d.common, d.fnval, d.args, d.pos)
	}
	if b, ok := d.common.Value.(*ssa.Builtin); ok {
		e.builtin(st, fr, nil, b, d.common, d.args, d.pos)
		return nil, true
	}
	if d.callee == nil {
		e.havocCall(st, nil, d.common, d.args, "deferred dynamic call", true)
		return nil, true
	}
	return e.callStatic(st, fr, nil, d.callee, d.env, d.args, d.common, d.pos)
}

// havocCall: unknown callee. Result unconstrained; heap forgotten (full) or only what the
// arguments reach directly (shallow).
func (e *Engine) havocCall(st *State, res ssa.Value, c *ssa.CallCommon, args []Val, why string, full bool) {
	for _, a := range args {
		e.escape(st, a)
	}
	if full {
		e.havocHeap(st, why)
	} else {
		for _, a := range args {
			e.havocReach(st, a)
		}
	}
	if rt := e.resultType(c); rt != nil {
		e.bindResult(st, res, e.freshVal(st, "r", rt))
	}
}

// havocReach forgets what an argument points to directly.
func (e *Engine) havocReach(st *State, a Val) {
	switch a.K {
	case KSlice:
		if s, ok := a.Ty.Underlying().(*types.Slice); ok {
			et := s.Elem()
			for k, l := range leaves(et) {
				key := e.elemKey(et, k)
				srt := "(Array Int (Array (_ BitVec 64) " + l.Sort + "))"
				arr := e.heapGet(st, key, srt)
				st.heap[key] = sto(arr, a.T, e.fresh("hv", "(Array (_ BitVec 64) "+l.Sort+")"))
			}
		}
	case KPtr:
		if pt := e.pointee(a.Ty); pt != nil {
			e.storeHeapCell(st, pt, a.T, e.freshVal(st, "hv", pt))
		}
	case KAddr:
		if a.A != nil && !a.A.Opaque && a.A.Ty != nil {
			e.store(st, a, e.freshVal(st, "hv", a.A.Ty), a.A.Ty)
		}
	case KMap:
		if mt, ok := a.Ty.Underlying().(*types.Map); ok {
			e.havocMap(st, mt, a.T)
		}
	case KStruct, KTuple:
		for _, f := range a.F {
			e.havocReach(st, f)
		}
	}
}

func (e *Engine) havocMap(st *State, mt *types.Map, m string) {
	dk, vk, ks := e.mapKeys(mt)
	arr := e.heapGet(st, dk, "(Array Int (Array "+ks+" Bool))")
	st.heap[dk] = sto(arr, m, e.fresh("hv", "(Array "+ks+" Bool)"))
	for i, l := range leaves(mt.Elem()) {
		key := fmt.Sprintf("%s:%d", vk, i)
		a := e.heapGet(st, key, "(Array Int (Array "+ks+" "+l.Sort+"))")
		st.heap[key] = sto(a, m, e.fresh("hv", "(Array "+ks+" "+l.Sort+")"))
	}
}

// ---- dynamic dispatch ---------------------------------------------------------------------------

func (e *Engine) invoke(st *State, fr *Frame, res ssa.Value, c *ssa.CallCommon, recv Val, args []Val, pos token.Pos) ([]*State, bool) {
	mname := c.Method.Name()
	e.callAssertHooks(st, fr, "invoke:"+mname, append([]Val{recv}, args...), pos)
	// nil receiver panics
	if recv.K == KIface {
		goal := not(eq(recv.X[0], "0"))
		if e.wantSafe {
			if v, ok := st.known(goal); !ok || !v {
				name, where := e.siteName(fr, "nil", pos, e.describe(c.Value)+"."+mname+"()")
				e.oblige(st, name, "K1", "method call on nil interface", goal, where, e.safeProps())
			}
		} else {
			st.assume(goal)
		}
	}
	// dynamic type syntactically known: static dispatch
	if recv.K == KIface {
		var id int
		if _, err := fmt.Sscanf(recv.X[0], "%d", &id); err == nil && fmt.Sprint(id) == recv.X[0] && id > 0 {
			e.P.reg.mu.Lock()
			dt := e.P.reg.tagType[id]
			e.P.reg.mu.Unlock()
			if dt != nil && dt != types.Type(externErrType) {
				if m := e.P.prog.LookupMethod(dt, c.Method.Pkg(), c.Method.Name()); m != nil {
					rv := e.unboxIface(st, recv, dt)
					return e.callStatic(st, fr, res, m, nil, append([]Val{rv}, args...), c, pos)
				}
			}
		}
	}
	// closed world with a single implementer: the call can only go there
	if recv.K == KIface && e.P.closedWorld(c.Value.Type()) {
		if impls := e.P.implementers(c.Value.Type()); len(impls) == 1 && e.P.ifaceContract(c.Value.Type(), mname) == nil {
			if m := e.P.prog.LookupMethod(impls[0], c.Method.Pkg(), c.Method.Name()); m != nil {
				st.assume(eq(recv.X[0], e.P.reg.tagOf(impls[0])))
				rv := e.unboxIface(st, recv, impls[0])
				return e.callStatic(st, fr, res, m, nil, append([]Val{rv}, args...), c, pos)
			}
		}
	}
	// interface-level contract
	if con := e.P.ifaceContract(c.Value.Type(), mname); con != nil {
		e.applyIfaceContract(st, fr, res, c, con, recv, args, pos)
		return nil, true
	}
	impls := e.P.implementers(c.Value.Type())
	closed := e.P.closedWorld(c.Value.Type())
	if recv.K == KIface && len(impls) > 0 && (len(impls) <= 24 || (e.wantsDispatch(mname) && len(impls) <= 160)) {
		// try: every implementer's method is a pure summary -> ite chain
		if v, ok := e.dispatchPure(st, fr, c, recv, args, impls, closed); ok {
			if len(impls) > 8 && (v.K == KPtr || v.K == KInt || v.K == KBool || v.K == KStr) && len(v.comps()) == 1 && v.Ty != nil {
				// name the big ite chain once so that later formulas stay small
				n := e.fresh("r.dispatch."+mname, scalarSort(v.Ty))
				st.assume(eq(n, v.T))
				v.T = n
			}
			e.bindResult(st, res, v)
			return nil, true
		}
	}
	// `dispatch M` in a closed world where the methods are not summaries: one successor per
	// implementer, each called statically (by its contract, or inlined) under its tag
	if recv.K == KIface && closed && len(impls) > 0 && len(impls) <= 24 && e.wantsDispatch(mname) {
		all := true
		for _, t := range impls {
			if m := e.P.prog.LookupMethod(t, c.Method.Pkg(), c.Method.Name()); m == nil || m.Blocks == nil {
				all = false
			}
		}
		if all {
			var out []*State
			for _, t := range impls {
				cond := eq(recv.X[0], e.P.reg.tagOf(t))
				if v, ok := st.known(cond); ok && !v {
					continue
				}
				s2 := st.clone()
				s2.assume(cond)
				if !e.feasible(s2) {
					continue
				}
				e.paths++
				m := e.P.prog.LookupMethod(t, c.Method.Pkg(), c.Method.Name())
				rv := e.unboxIface(s2, recv, t)
				succ, cont := e.callStatic(s2, s2.top(), res, m, nil, append([]Val{rv}, args...), c, pos)
				if cont {
					out = append(out, s2)
				} else {
					out = append(out, succ...)
				}
			}
			return out, false
		}
	}
	full := true
	if e.P.methodAssumedPure(c.Value.Type(), mname) {
		full = false
		e.usedExterns[typeName(c.Value.Type())+"."+mname+" (interface method assumed heap-pure)"] = true
		if rt := e.resultType(c); rt != nil {
			e.bindResult(st, res, e.pureResult(st, "meth."+mname, append([]Val{recv}, args...), rt, true))
		}
		return nil, true
	}
	_ = full
	eff := &Effect{Keys: map[string]bool{}}
	e.P.callEffect(eff, c, fr.fn)
	e.havocCalls["invoke "+typeName(c.Value.Type())+"."+mname+" ("+effSummary(eff)+")"]++
	e.havocGhosts(st, e.P.siteCallees(fr.fn, c), false)
	for _, a := range args {
		e.escape(st, a)
	}
	e.escape(st, recv)
	e.havocEffect(st, eff, "dynamic dispatch "+mname)
	if rt := e.resultType(c); rt != nil {
		e.bindResult(st, res, e.freshVal(st, "r", rt))
	}
	return nil, true
}

// dispatchPure evaluates the method of every implementer symbolically; succeeds when each is a
// side-effect-free single-expression summary.
func (e *Engine) dispatchPure(st *State, fr *Frame, c *ssa.CallCommon, recv Val, args []Val, impls []types.Type, closed bool) (Val, bool) {
	rt := e.resultType(c)
	if rt == nil {
		return Val{}, false
	}
	type arm struct {
		cond string
		v    Val
	}
	var arms []arm
	for _, t := range impls {
		m := e.P.prog.LookupMethod(t, c.Method.Pkg(), c.Method.Name())
		if m == nil || m.Blocks == nil {
			return Val{}, false
		}
		cond := eq(recv.X[0], e.P.reg.tagOf(t))
		if v, ok := st.known(cond); ok && !v {
			continue
		}
		rv := e.unboxIface(st, recv, t)
		v, ok := e.pureSummary(st, m, append([]Val{rv}, args...), cond)
		if !ok {
			return Val{}, false
		}
		arms = append(arms, arm{cond, v})
	}
	if len(arms) == 0 {
		return Val{}, false
	}
	var acc Val
	if closed {
		acc = arms[len(arms)-1].v
		arms = arms[:len(arms)-1]
	} else {
		acc = e.freshVal(st, "r.dyn."+c.Method.Name(), rt)
	}
	for i := len(arms) - 1; i >= 0; i-- {
		if arms[i].v.K != acc.K {
			return Val{}, false
		}
		acc = e.iteVal(arms[i].cond, arms[i].v, acc)
	}
	return acc, true
}

// pureSummary runs fn on a scratch copy of st under the extra assumption cond; it succeeds when
// all paths return without touching the heap, emitting obligations or calling unknown code.
func (e *Engine) pureSummary(st *State, fn *ssa.Function, args []Val, cond string) (Val, bool) {
	n := 0
	for _, b := range fn.Blocks {
		n += len(b.Instrs)
	}
	if n > 60 || len(e.P.loopsOf(fn)) > 0 {
		return Val{}, false
	}
	for _, f := range st.frames {
		if f.fn == fn {
			return Val{}, false
		}
	}
	sc := st.clone()
	if len(sc.frames) == 0 {
		// evaluated from a postcondition (the root frame is gone): give the summary a base frame
		sc.frames = []*Frame{{fn: e.fn, regs: map[ssa.Value]Val{}, cells: map[*ssa.Alloc]int{}, dummy: true}}
	}
	e.inSummary++
	defer func() { e.inSummary-- }()
	sc.assume(cond)
	prePC := len(sc.pc)
	saveObls, saveOrder := len(e.oblOrder), e.oblOrder
	casesBefore := map[string]int{}
	for k, o := range e.obls {
		casesBefore[k] = len(o.Cases)
	}
	saveSafe := e.wantSafe
	e.wantSafe = false
	saveHavoc := len(e.havocCalls)
	hv := map[string]int{}
	for k, v := range e.havocCalls {
		hv[k] = v
	}
	depth := len(sc.frames)
	var holder ssa.Value = &ssa.Parameter{}
	nf := e.newFrame(sc, fn, nil, args, nil)
	nf.call = holder
	sc.frames = append(sc.frames, nf)
	heapBefore := map[string]string{}
	for k, v := range sc.heap {
		heapBefore[k] = v
	}
	aBefore := sc.A
	subs := e.exec(sc, depth)
	e.wantSafe = saveSafe
	restore := func() {
		e.oblOrder = saveOrder[:saveObls]
		for k, o := range e.obls {
			if nb, ok := casesBefore[k]; ok {
				o.Cases = o.Cases[:nb]
			} else {
				delete(e.obls, k)
			}
		}
		e.havocCalls = hv
	}
	_ = saveHavoc
	if e.aborted != "" || len(subs) == 0 || len(subs) > 16 {
		restore()
		return Val{}, false
	}
	pure := len(e.havocCalls) == len(hv)
	for k, v := range e.havocCalls {
		if hv[k] != v {
			pure = false
		}
	}
	for _, s := range subs {
		if s.A != aBefore {
			pure = false
		}
		for k, v := range s.heap {
			if b, ok := heapBefore[k]; ok && b != v {
				pure = false
			}
		}
	}
	restore()
	if !pure {
		return Val{}, false
	}
	var acc Val
	for i := len(subs) - 1; i >= 0; i-- {
		s := subs[i]
		v, ok := s.top().regs[holder]
		if !ok {
			return Val{}, false
		}
		if i == len(subs)-1 {
			acc = v
			continue
		}
		if v.K != acc.K {
			return Val{}, false
		}
		cs, _ := s.split(prePC)
		acc = e.iteVal(and(cs...), v, acc)
	}
	// assumptions made on the way (type invariants of loaded values ...) hold under their branch
	for _, s := range subs {
		cs, fs := s.split(prePC)
		st.assume(implies(and(append([]string{cond}, cs...)...), and(fs...)))
	}
	// heap arrays first touched inside the summary must be known to the caller state too
	for _, s := range subs {
		for k, v := range s.heap {
			if _, ok := st.heap[k]; !ok {
				st.heap[k] = v
			}
		}
	}
	return acc, true
}

// ---- builtins -------------------------------------------------------------------------------

func (e *Engine) builtin(st *State, fr *Frame, res ssa.Value, b *ssa.Builtin, c *ssa.CallCommon, args []Val, pos token.Pos) {
	rt := e.resultType(c)
	switch b.Name() {
	case "len":
		a := args[0]
		switch a.K {
		case KSlice:
			e.bindResult(st, res, Val{K: KInt, Ty: rt, T: a.X[1]})
		case KStr:
			e.bindResult(st, res, Val{K: KInt, Ty: rt, T: e.strlen(st, a.T)})
		case KMap:
			e.declFun("maplen", "(Int) (_ BitVec 64)")
			v := e.fresh("maplen", bvSort(64))
			st.assume("(bvsge " + v + " #x0000000000000000)")
			e.bindResult(st, res, Val{K: KInt, Ty: rt, T: v})
		default:
			v := e.freshVal(st, "len", rt)
			st.assume("(bvsge " + v.T + " #x0000000000000000)")
			e.bindResult(st, res, v)
		}
	case "cap":
		if args[0].K == KSlice {
			e.bindResult(st, res, Val{K: KInt, Ty: rt, T: args[0].X[2]})
		} else {
			e.bindResult(st, res, e.freshVal(st, "cap", rt))
		}
	case "append":
		e.bindResult(st, res, e.appendOp(st, args[0], args[1], rt))
	case "copy":
		e.havocReach(st, args[0])
		n := e.freshVal(st, "copy.n", rt)
		st.assume("(bvsge " + n.T + " #x0000000000000000)")
		if args[0].K == KSlice {
			st.assume("(bvsle " + n.T + " " + args[0].X[1] + ")")
		}
		e.bindResult(st, res, n)
	case "delete":
		if mt, ok := args[0].Ty.Underlying().(*types.Map); ok {
			e.mapDelete(st, mt, args[0].T, e.mapKeyTerm(mt, args[1]))
		}
	case "min", "max":
		if len(args) == 2 && args[0].K == KInt {
			_, signed := intInfo(rt)
			op := "bvslt"
			if !signed {
				op = "bvult"
			}
			cnd := "(" + op + " " + args[0].T + " " + args[1].T + ")"
			if b.Name() == "max" {
				cnd = not(cnd)
			}
			e.bindResult(st, res, Val{K: KInt, Ty: rt, T: ite(cnd, args[0].T, args[1].T)})
		} else if rt != nil {
			e.bindResult(st, res, e.freshVal(st, b.Name(), rt))
		}
	case "print", "println", "ssa:wrapnilchk", "clear", "close":
		if b.Name() == "ssa:wrapnilchk" && rt != nil {
			e.bindResult(st, res, args[0])
		}
		if b.Name() == "clear" {
			e.havocReach(st, args[0])
		}
	case "recover":
		e.bindResult(st, res, e.zeroVal(rt))
	default:
		if rt != nil {
			e.bindResult(st, res, e.freshVal(st, b.Name(), rt))
		}
	}
}

func bvConst(t string) (uint64, bool) {
	if strings.HasPrefix(t, "#x") && len(t) == 18 {
		var v uint64
		if _, err := fmt.Sscanf(t[2:], "%x", &v); err == nil {
			return v, true
		}
	}
	return 0, false
}

func (e *Engine) appendOp(st *State, s, extra Val, rt types.Type) Val {
	sl, ok := rt.Underlying().(*types.Slice)
	if !ok || s.K != KSlice {
		return e.freshVal(st, "append", rt)
	}
	et := sl.Elem()
	var n string
	switch extra.K {
	case KSlice:
		n = extra.X[1]
	case KStr:
		n = e.strlen(st, extra.T)
	default:
		return e.freshVal(st, "append", rt)
	}
	if nv, ok := bvConst(n); ok && nv == 0 {
		return s
	}
	newLen := "(bvadd " + s.X[1] + " " + n + ")"
	fits := "(bvsle " + newLen + " " + s.X[2] + ")"
	nb := e.alloc(st, types.Typ[types.Int], false)
	base := ite(fits, s.T, nb)
	ncap := e.fresh("append.cap", bvSort(64))
	st.assume("(and (bvsge " + ncap + " " + newLen + ") (bvsge " + newLen + " " + s.X[1] + "))")
	capT := ite(fits, s.X[2], ncap)
	ls := leaves(et)
	nv, isConst := bvConst(n)
	for k, l := range ls {
		key := e.elemKey(et, k)
		srt := "(Array Int (Array (_ BitVec 64) " + l.Sort + "))"
		arr := e.heapGet(st, key, srt)
		inner := sel(arr, s.T)
		if isConst && nv <= 8 && extra.K == KSlice {
			for i := uint64(0); i < nv; i++ {
				src := e.loadElem(st, et, extra.T, "(bvadd "+extra.X[0]+" "+bvLit(i, 64)+")").comps()
				inner = sto(inner, "(bvadd (bvadd "+s.X[0]+" "+s.X[1]+") "+bvLit(i, 64)+")", src[k])
			}
		} else {
			// (ground array terms are named so that read-over-write is settled outside the quantifiers)
			old := e.fresh("append.old", "(Array (_ BitVec 64) "+l.Sort+")")
			st.assume(eq(old, inner))
			inner = e.fresh("append.elems", "(Array (_ BitVec 64) "+l.Sort+")")
			// the first len(s) elements are kept; the n new ones are copies of the source
			e.nfresh++
			q := sym(fmt.Sprintf("q.ap!%d", e.nfresh))
			lo := s.X[0]
			st.assume(fmt.Sprintf("(forall ((%s (_ BitVec 64))) (=> (and (bvsle %s %s) (bvslt %s (bvadd %s %s))) (= (select %s %s) (select %s %s))))",
				q, lo, q, q, lo, s.X[1], inner, q, old, q))
			if extra.K == KSlice {
				srcArr := e.fresh("append.src", "(Array (_ BitVec 64) "+l.Sort+")")
				st.assume(eq(srcArr, sel(arr, extra.T)))
				// (indexed by the destination position so that any read of the new array triggers it)
				start := "(bvadd " + lo + " " + s.X[1] + ")"
				st.assume(fmt.Sprintf("(forall ((%s (_ BitVec 64))) (=> (and (bvsle %s %s) (bvslt %s (bvadd %s %s))) (= (select %s %s) (select %s (bvadd %s (bvsub %s %s))))))",
					q, start, q, q, start, n, inner, q, srcArr, extra.X[0], q, start))
			}
		}
		st.heap[key] = sto(arr, base, inner)
	}
	return Val{K: KSlice, Ty: rt, T: base, X: []string{s.X[0], newLen, capT}}
}

// ---- contracts at call sites ------------------------------------------------------------------

type SpecEnv struct {
	rootParams       map[string]bool
	localsOnlyDollar bool
	vars             map[string]Val
	pkg              *types.Package
	fn               *ssa.Function
	fr               *Frame         // for resolving named locals (root only)
	free             map[string]Val // captured variables (closures): name -> address of the captured cell
}

func (e *Engine) calleeEnv(callee *ssa.Function, args []Val, bind []Val) *SpecEnv {
	env := &SpecEnv{vars: map[string]Val{}, fn: callee}
	if callee.Pkg != nil {
		env.pkg = callee.Pkg.Pkg
	} else if callee.Object() != nil {
		env.pkg = callee.Object().Pkg()
	}
	for i, p := range callee.Params {
		if i < len(args) {
			a := args[i]
			if a.K != KAddr {
				a = e.retype(a, p.Type())
			}
			env.vars[p.Name()] = a
		}
	}
	if len(bind) == len(callee.FreeVars) && len(bind) > 0 {
		env.free = map[string]Val{}
		for i, fv := range callee.FreeVars {
			b := bind[i]
			if b.Ty == nil {
				b.Ty = fv.Type()
			}
			env.free[fv.Name()] = b
		}
	}
	return env
}

func resultNames(sig *types.Signature) []string {
	rs := sig.Results()
	names := make([]string, rs.Len())
	for i := 0; i < rs.Len(); i++ {
		n := rs.At(i).Name()
		if n == "" || n == "_" {
			if i == rs.Len()-1 && isErrorType(rs.At(i).Type()) && rs.Len() >= 1 {
				n = "err"
				if rs.Len() == 1 {
					n = "result"
				}
			} else if i == 0 {
				n = "result"
			} else {
				n = fmt.Sprintf("result%d", i)
			}
		}
		names[i] = n
	}
	return names
}

func isErrorType(t types.Type) bool {
	return types.Identical(t, types.Universe.Lookup("error").Type())
}

func (e *Engine) bindResults(env *SpecEnv, sig *types.Signature, rs []Val) {
	names := resultNames(sig)
	for i, n := range names {
		if i < len(rs) {
			env.vars[n] = rs[i]
			env.vars[fmt.Sprintf("result%d", i)] = rs[i]
		}
	}
	if len(names) == 1 && isErrorType(sig.Results().At(0).Type()) && len(rs) == 1 {
		env.vars["err"] = rs[0]
	}
}

func (e *Engine) applyContract(st *State, fr *Frame, res ssa.Value, callee *ssa.Function, con *Contract, args []Val, bind []Val, pos token.Pos) {
	e.usedContracts[shortFn(callee)] = true
	if con.Extern {
		e.usedExterns[callee.String()+" (ASSUMED contract, not proved: "+contractSummary(con)+")"] = true
	}
	env := e.calleeEnv(callee, args, bind)
	for _, a := range args {
		e.escape(st, a)
	}
	// requires -> obligations at the call site
	for k, c := range con.get("requires") {
		nerr, nnote := len(e.specErrors), len(e.notes)
		g := e.evalSpecBool(st, st, c.Expr, env)
		if c.Optional && len(e.specErrors) > nerr {
			e.specErrors, e.notes = e.specErrors[:nerr], e.notes[:nnote]
			continue
		}
		if len(c.Props) > 0 && len(e.props) > 0 && !e.propActive(c.Props) {
			// a precondition that belongs to another property's contract block pairs with that block's
			// postconditions; it is that property's check that demands it at every call site
			continue
		}
		if c.Tmpl && c.Optional && len(c.Props) > 0 && !e.sharesProp(c.Props) {
			// the optional precondition of a sweep template belongs to another property's sweep (it says
			// what that sweep assumes about receivers); the function verified here relies on none of its
			// postconditions for this clause, so it is not its obligation. It is not assumed either: an
			// assumption that is false here would make everything after the call vacuous.
			continue
		}
		if fr != nil && (fr.fn == e.fn || e.wantSafe) {
			// a precondition is an obligation of the function under verification (its properties);
			// inside inlined helpers it is only demanded in safe mode
			name, where := e.siteName(fr, "pre", pos, fmt.Sprintf("%s requires#%d %s", shortFn(callee), k+1, c.Label))
			props := e.props
			if e.con != nil && len(e.con.Props) > 0 {
				props = e.con.Props
			}
			e.oblige(st, name, "K2", c.Text, g, where, props)
		} else {
			st.assume(g)
		}
	}
	e.variantCheck(st, fr, callee, con, env, pos)
	pre := st.clone()
	if !con.has("pure") {
		e.havocGhosts(st, []*ssa.Function{callee}, false)
	}
	// frame
	switch {
	case con.has("pure"):
	case con.has("assigns"):
		for _, c := range con.get("assigns") {
			for _, loc := range c.Locs {
				e.havocLoc(st, pre, loc, env)
			}
		}
	default:
		// `preserves KEY...` (only with by-induction): arrays assumed unchanged at return -- an
		// UNCHECKED assumption that is listed in the evidence
		keep := con.preserved()
		if len(keep) > 0 && con.has("by-induction") {
			e.uncheckedAssumes[shortFn(callee)+" leaves the heap arrays matching {"+strings.Join(keep, " ")+"} as they were at entry"] = true
		}
		if len(keep) > 0 && callee != nil {
			base := e.P.effectOf(callee)
			eff := &Effect{All: base.All, Except: base.Except, Ext: base.Ext, Keys: base.Keys, Parts: base.Parts, Preserve: keep}
			e.havocEffect(st, eff, "contract without frame: "+shortFn(callee))
		} else {
			e.foreignOrFullHavoc(st, callee, "contract without frame: "+shortFn(callee))
		}
	}
	// the callee may have allocated (allocation is not a write to existing memory)
	{
		na := e.fresh("A", "Int")
		st.assume(fmt.Sprintf("(>= %s %s)", na, st.A.term()))
		st.A = allocCtr{na, 0}
	}
	// results
	sig := callee.Signature
	var rs []Val
	if con.has("stable") && sig.Results().Len() >= 1 {
		// the result is a function of the arguments alone (e.g. the name of a file object)
		e.stableMode = true
		rv := e.pureResult(st, "stable."+callee.String(), args, e.resultTypeOfSig(sig), true)
		e.stableMode = false
		if sig.Results().Len() == 1 {
			rs = []Val{rv}
		} else {
			rs = rv.F
		}
	} else {
		for i := 0; i < sig.Results().Len(); i++ {
			rs = append(rs, e.freshVal(st, "r."+callee.Name(), sig.Results().At(i).Type()))
		}
	}
	e.bindResults(env, sig, rs)
	for _, c := range con.get("ensures") {
		if strings.Contains(c.Text, "$") {
			continue // mentions locals of the callee: a proof obligation there, not visible to callers
		}
		if e.forgets(c.Label) {
			continue // `forget REGEX`: the function under verification does not need this fact (sound: fewer assumptions)
		}
		nerr, nnote := len(e.specErrors), len(e.notes)
		g := e.evalSpecBool(st, pre, c.Expr, env)
		foreign := len(c.Props) > 0 && len(e.props) > 0 && !e.propActive(c.Props)
		if (c.Optional || foreign) && len(e.specErrors) > nerr {
			// (a postcondition of another property's block that cannot be evaluated here is not used)
			e.specErrors, e.notes = e.specErrors[:nerr], e.notes[:nnote]
			continue
		}
		st.assume(g)
	}
	for _, c := range con.get("assume-ensures") {
		st.assume(e.evalSpecBool(st, pre, c.Expr, env))
		e.uncheckedAssumes[shortFn(callee)+" (assumed at its call sites, never checked): "+c.Text] = true
	}
	if con.Extern {
		// an external function has no body to carry its ghost effect: it is applied here
		e.applyGhostEffectsOld(st, pre, con, env)
	}
	if res != nil {
		switch len(rs) {
		case 0:
		case 1:
			e.bindResult(st, res, rs[0])
		default:
			e.bindResult(st, res, Val{K: KTuple, Ty: res.Type(), F: rs})
		}
	}
	e.afterCallHooks(st, fr, shortFn(callee), args, rs, pos)
}

// afterCallHooks implements `aftercall CALLEE: expr` (an assertion on the state right after the call).
func (e *Engine) afterCallHooks(st *State, fr *Frame, calleeName string, args, rs []Val, pos token.Pos) {
	if e.con == nil || fr == nil || fr.fn != e.fn {
		return
	}
	for _, c := range e.con.Clauses {
		if c.Kind != "aftercall" || len(c.Args) == 0 || !calleeMatches(calleeName, c.Args[0]) {
			continue
		}
		env := e.rootEnv(st, nil)
		for i, a := range args {
			env.vars[fmt.Sprintf("arg%d", i)] = a
		}
		for i, r := range rs {
			env.vars[fmt.Sprintf("ret%d", i)] = r
		}
		g := e.evalSpecBool(st, e.entry, c.Expr, env)
		name, where := e.siteName(fr, "after", pos, c.Args[0]+" "+c.Label)
		e.oblige(st, name, "K5", c.Text, g, where, c.Props)
	}
}

func (e *Engine) applyIfaceContract(st *State, fr *Frame, res ssa.Value, c *ssa.CallCommon, con *Contract, recv Val, args []Val, pos token.Pos) {
	e.usedContracts[con.Key] = true
	env := &SpecEnv{vars: map[string]Val{"recv": recv, "self": recv}}
	sig := c.Signature()
	for i := 0; i < sig.Params().Len() && i < len(args); i++ {
		env.vars[sig.Params().At(i).Name()] = args[i]
		env.vars[fmt.Sprintf("arg%d", i)] = args[i]
	}
	for k, cl := range con.get("requires") {
		g := e.evalSpecBool(st, st, cl.Expr, env)
		name, where := e.siteName(fr, "pre", pos, fmt.Sprintf("%s requires#%d", con.Key, k+1))
		e.oblige(st, name, "K2", cl.Text, g, where, cl.Props)
	}
	pre := st.clone()
	switch {
	case con.has("pure"):
	case con.has("assigns"):
		for _, cl := range con.get("assigns") {
			for _, loc := range cl.Locs {
				e.havocLoc(st, pre, loc, env)
			}
		}
	default:
		e.havocHeap(st, "iface contract without frame")
	}
	var rs []Val
	for i := 0; i < sig.Results().Len(); i++ {
		rs = append(rs, e.freshVal(st, "r."+c.Method.Name(), sig.Results().At(i).Type()))
	}
	e.bindResults(env, sig, rs)
	for _, cl := range con.get("ensures") {
		st.assume(e.evalSpecBool(st, pre, cl.Expr, env))
	}
	if res != nil {
		switch len(rs) {
		case 0:
		case 1:
			e.bindResult(st, res, rs[0])
		default:
			e.bindResult(st, res, Val{K: KTuple, Ty: res.Type(), F: rs})
		}
	}
}

// havocLoc forgets one assigns-location in st (evaluated in the pre state).
func (e *Engine) havocLoc(st, pre *State, loc SExpr, env *SpecEnv) {
	switch x := loc.(type) {
	case SIdent:
		if x.Name == "heap" || x.Name == "everything" {
			e.foreignOrFullHavoc(st, env.fn, "assigns heap")
			return
		}
		if x.Name == "fresh" || x.Name == "nothing" {
			return
		}
		if x.Name == "external" {
			e.havocEffect(st, &Effect{Ext: true, Keys: map[string]bool{}}, "assigns external")
			return
		}
		if x.Name == "foreign" {
			pfx := "F:?"
			if env.pkg != nil {
				pfx = "F:" + strings.TrimPrefix(env.pkg.Path(), falcoMod+"/") + "."
			}
			e.havocEffect(st, &Effect{All: true, Except: pfx, Keys: map[string]bool{}}, "assigns foreign")
			return
		}
		// a package-level variable of the callee's package
		if env.pkg != nil {
			if v, ok := env.pkg.Scope().Lookup(x.Name).(*types.Var); ok {
				if g := e.P.globalFor(v); g != nil {
					e.P.mu.Lock()
					e.P.mutGlobal[g] = true
					e.P.mu.Unlock()
					pfx := e.globalKey(g) + ":"
					for _, key := range sortedKeys(st.heap) {
						if strings.HasPrefix(key, pfx) {
							st.heap[key] = e.fresh(key, e.keySort[key])
						}
					}
					return
				}
			}
		}
	case SSel:
		if pt, addr, ok := e.structAddr(pre, pre, x.X, env); ok {
			if s, ok := isStruct(pt); ok {
				for i := 0; i < s.NumFields(); i++ {
					if s.Field(i).Name() == x.Name {
						e.storeField(st, pt, addr, i, e.freshVal(st, "hv."+x.Name, s.Field(i).Type()))
						return
					}
				}
			}
		}
		base := e.evalSpec(pre, pre, x.X, env)
		if x.Name == "all" || x.Name == "_" { // x.all : every field of the object(s) x denotes
			e.havocObject(st, base)
			return
		}
		if base.K == KPtr {
			if pt := e.pointee(base.Ty); pt != nil {
				if s, ok := isStruct(pt); ok {
					for i := 0; i < s.NumFields(); i++ {
						if s.Field(i).Name() == x.Name {
							e.storeField(st, pt, base.T, i, e.freshVal(st, "hv."+x.Name, s.Field(i).Type()))
							return
						}
					}
				}
			}
		}
	case SIndex:
		base := e.evalSpec(pre, pre, x.X, env)
		if id, ok := x.I.(SIdent); ok && (id.Name == "_" || id.Name == "all") {
			e.havocReach(st, base)
			return
		}
		idx := e.evalSpec(pre, pre, x.I, env)
		switch base.K {
		case KMap:
			mt := base.Ty.Underlying().(*types.Map)
			k := e.mapKeyTerm(mt, e.coerceTo(idx, mt.Key()))
			// membership and value both unknown afterwards
			dk, _, ks := e.mapKeys(mt)
			arr := e.heapGet(st, dk, "(Array Int (Array "+ks+" Bool))")
			st.heap[dk] = sto(arr, base.T, sto(sel(arr, base.T), k, e.fresh("hv", "Bool")))
			has := e.mapHas(st, mt, base.T, k)
			e.mapStoreVal(st, mt, base.T, k, e.freshVal(st, "hv", mt.Elem()))
			_ = has
			return
		case KSlice:
			et := base.Ty.Underlying().(*types.Slice).Elem()
			i := e.coerceTo(idx, types.Typ[types.Int])
			e.storeElem(st, et, base.T, "(bvadd "+base.X[0]+" "+i.T+")", e.freshVal(st, "hv", et))
			return
		}
	case SCall:
		if id, ok := x.Fn.(SIdent); ok && id.Name == "deref" && len(x.Args) == 1 {
			e.havocObject(st, e.evalSpec(pre, pre, x.Args[0], env))
			return
		}
	}
	e.note("assigns location not understood: " + specString(loc) + " (whole heap havocked)")
	e.havocHeap(st, "assigns ?")
}

func (e *Engine) mapStoreVal(st *State, mt *types.Map, m, k string, v Val) {
	_, vk, ks := e.mapKeys(mt)
	ls := leaves(mt.Elem())
	cs := v.comps()
	for i, l := range ls {
		key := fmt.Sprintf("%s:%d", vk, i)
		a := e.heapGet(st, key, "(Array Int (Array "+ks+" "+l.Sort+"))")
		st.heap[key] = sto(a, m, sto(sel(a, m), k, cs[i]))
	}
}

// havocObject forgets every field of the object(s) v points to.
func (e *Engine) havocObject(st *State, v Val) {
	switch v.K {
	case KPtr:
		if pt := e.pointee(v.Ty); pt != nil {
			e.storeHeapCell(st, pt, v.T, e.freshVal(st, "hv", pt))
		}
	case KIface:
		for _, t := range e.P.implementers(v.Ty) {
			pt := e.pointee(t)
			if pt == nil {
				continue
			}
			s, ok := isStruct(pt)
			if !ok {
				continue
			}
			cond := eq(v.X[0], e.P.reg.tagOf(t))
			for i := 0; i < s.NumFields(); i++ {
				old := e.loadField(st, pt, v.T, i)
				nv := e.freshVal(st, "hv."+s.Field(i).Name(), s.Field(i).Type())
				e.storeField(st, pt, v.T, i, e.iteVal(cond, nv, old))
			}
		}
	case KSlice, KMap:
		e.havocReach(st, v)
	}
}

// callAssertHooks implements `callassert CALLEE: expr` and mustcall flags of the root contract.
func (e *Engine) callAssertHooks(st *State, fr *Frame, calleeName string, args []Val, pos token.Pos) {
	if e.con == nil {
		return
	}
	for _, c := range e.con.Clauses {
		if (c.Kind != "callassert" && c.Kind != "mustcall") || len(c.Args) == 0 {
			continue
		}
		if !calleeMatches(calleeName, c.Args[0]) {
			continue
		}
		if c.Kind == "callassert" {
			env := e.rootEnv(st, nil)
			for i, a := range args {
				env.vars[fmt.Sprintf("arg%d", i)] = a
			}
			nerr, nnote := len(e.specErrors), len(e.notes)
			g := e.evalSpecBool(st, e.entry, c.Expr, env)
			if c.Optional && len(e.specErrors) > nerr {
				e.specErrors, e.notes = e.specErrors[:nerr], e.notes[:nnote]
				continue // (the assertion does not apply to a call of this shape)
			}
			name, where := e.siteName(fr, "call", pos, c.Args[0]+" "+c.Label)
			e.oblige(st, name, "K5", c.Text, g, where, c.Props)
		} else {
			st.flags["called:"+c.Args[0]] = "true"
		}
	}
	if e.con.usesCalled() {
		st.flags["called:"+lastName(calleeName)] = "true"
	}
	if e.con.has("count-calls") {
		n := 0
		fmt.Sscanf(st.flags["calls:"+lastName(calleeName)], "%d", &n)
		st.flags["calls:"+lastName(calleeName)] = fmt.Sprint(n + 1)
	}
	for _, c := range e.con.Clauses {
		if false {
			_ = c
		}
	}
}

func calleeMatches(callee, pat string) bool {
	if callee == pat {
		return true
	}
	// pattern may be a bare method / function name
	if i := strings.LastIndex(callee, "."); i >= 0 && callee[i+1:] == pat {
		return true
	}
	if strings.HasPrefix(callee, "invoke:") && callee[7:] == pat {
		return true
	}
	return false
}

// pureResult: result of a call that has no effect on modelled memory. When the callee is
// deterministic, the result is an uninterpreted function of the arguments (and of the heap
// snapshot when an argument is a reference), so that equal calls give equal results.
func (e *Engine) pureResult(st *State, name string, args []Val, rt types.Type, det bool) Val {
	if !det {
		return e.freshVal(st, "r."+name, rt)
	}
	var terms, sorts []string
	ref := false
	for _, a := range args {
		switch a.K {
		case KBool, KInt, KFloat, KStr:
			terms = append(terms, a.T)
			srt := "Int"
			if a.K != KStr {
				if a.Ty != nil {
					srt = scalarSort(a.Ty)
				} else {
					return e.freshVal(st, "r."+name, rt)
				}
			}
			sorts = append(sorts, srt)
		case KPtr, KMap:
			ref = true
			terms = append(terms, a.T)
			sorts = append(sorts, "Int")
		case KIface:
			ref = true
			terms = append(terms, a.T, a.X[0])
			sorts = append(sorts, "Int", "Int")
		case KSlice:
			ref = true
			terms = append(terms, a.T, a.X[0], a.X[1])
			sorts = append(sorts, "Int", bvSort(64), bvSort(64))
		case KStruct:
			if a.Ty == nil {
				return e.freshVal(st, "r."+name, rt)
			}
			ls := leaves(a.Ty)
			cs := a.comps()
			if len(ls) != len(cs) {
				return e.freshVal(st, "r."+name, rt)
			}
			for i := range ls {
				terms = append(terms, cs[i])
				sorts = append(sorts, ls[i].Sort)
			}
			ref = true
		default:
			return e.freshVal(st, "r."+name, rt)
		}
	}
	hv := ""
	if ref && !e.stableMode {
		strip := true
		for _, t := range terms {
			if strings.Contains(t, "|A!") {
				strip = false
			}
		}
		hv = fmt.Sprintf("!h%d", e.heapVersion(st, strip))
	}
	mk := func(suffix string, t types.Type) (Val, bool) {
		switch kindOf(t) {
		case KBool, KInt, KFloat, KStr:
			fn := sym(name + hv + suffix + "/" + strings.Join(sorts, ","))
			if len(terms) == 0 {
				e.decl(fn, scalarSort(t))
				return Val{K: kindOf(t), Ty: t, T: fn}, true
			}
			e.declFun(fn, "("+strings.Join(sorts, " ")+") "+scalarSort(t))
			return Val{K: kindOf(t), Ty: t, T: "(" + fn + " " + strings.Join(terms, " ") + ")"}, true
		}
		return Val{}, false
	}
	mk0 := mk
	mk = func(suffix string, t types.Type) (Val, bool) {
		if sl, ok := t.Underlying().(*types.Slice); ok && e.stableMode && len(leaves(sl.Elem())) == 1 {
			// a slice result of a stable function: same arguments, same backing array and length
			fb := sym(name + suffix + ".base/" + strings.Join(sorts, ","))
			fl := sym(name + suffix + ".len/" + strings.Join(sorts, ","))
			var bt, lt string
			if len(terms) == 0 {
				e.decl(fb, "Int")
				e.decl(fl, bvSort(64))
				bt, lt = fb, fl
			} else {
				e.declFun(fb, "("+strings.Join(sorts, " ")+") Int")
				e.declFun(fl, "("+strings.Join(sorts, " ")+") "+bvSort(64))
				bt = "(" + fb + " " + strings.Join(terms, " ") + ")"
				lt = "(" + fl + " " + strings.Join(terms, " ") + ")"
			}
			v := Val{K: KSlice, Ty: t, T: bt, X: []string{bvLit(0, 64), lt, lt}}
			e.typeInv(st, v)
			return v, true
		}
		return mk0(suffix, t)
	}
	if tup, ok := rt.(*types.Tuple); ok {
		v := Val{K: KTuple, Ty: rt}
		for i := 0; i < tup.Len(); i++ {
			if f, ok := mk(fmt.Sprintf("#%d", i), tup.At(i).Type()); ok {
				v.F = append(v.F, f)
			} else {
				v.F = append(v.F, e.freshVal(st, "r."+name, tup.At(i).Type()))
			}
		}
		return v
	}
	if v, ok := mk("", rt); ok {
		if v.K == KStr {
			e.declStrFuns()
		}
		return v
	}
	return e.freshVal(st, "r."+name, rt)
}

// heapVersion: an id that is equal for states whose heaps are syntactically equal. With strip,
// stores into objects allocated during this run (index built from the allocation counter) are
// ignored: they cannot change what an object that existed before (the receiver) observes.
func (e *Engine) heapVersion(st *State, strip bool) int {
	var sb strings.Builder
	for _, k := range sortedKeys(st.heap) {
		if isGhostKey(k) {
			continue
		}
		t := st.heap[k]
		if strip {
			t = stripFreshStores(t)
		}
		sb.WriteString(k)
		sb.WriteByte('=')
		sb.WriteString(t)
		sb.WriteByte(';')
	}
	fp := sb.String()
	if e.heapIDs == nil {
		e.heapIDs = map[string]int{}
	}
	id, ok := e.heapIDs[fp]
	if !ok {
		id = len(e.heapIDs) + 1
		e.heapIDs[fp] = id
	}
	return id
}

func stripFreshStores(t string) string {
	for strings.HasPrefix(t, "(store ") {
		parts := sexpParts(t)
		if len(parts) != 4 || !strings.Contains(parts[2], "|A!") {
			break
		}
		t = parts[1]
	}
	return t
}

// sexpParts splits "(a b (c d) e)" into its top-level elements.
func sexpParts(s string) []string {
	if len(s) < 2 || s[0] != '(' {
		return nil
	}
	s = s[1 : len(s)-1]
	var out []string
	d := 0
	inq := false
	start := -1
	for i := 0; i < len(s); i++ {
		c := s[i]
		if c == '|' {
			inq = !inq
		}
		if inq {
			if start < 0 {
				start = i
			}
			continue
		}
		switch c {
		case '(':
			if d == 0 && start < 0 {
				start = i
			}
			d++
		case ')':
			d--
		case ' ':
			if d == 0 && start >= 0 {
				out = append(out, s[start:i])
				start = -1
			}
		default:
			if start < 0 {
				start = i
			}
		}
	}
	if start >= 0 {
		out = append(out, s[start:])
	}
	return out
}

func (e *Engine) noVisibilityFrame() bool {
	return e.con != nil && e.con.has("no-visibility-frame")
}

// foreignOrFullHavoc: a callee whose contract gives no frame: use the inferred write effect.
func (e *Engine) foreignOrFullHavoc(st *State, callee *ssa.Function, why string) {
	if callee != nil {
		e.havocEffect(st, e.P.effectOf(callee), why)
		return
	}
	e.havocHeap(st, why)
}

func lastName(s string) string {
	if strings.HasPrefix(s, "invoke:") {
		return s[7:]
	}
	if i := strings.LastIndex(s, "."); i >= 0 {
		return s[i+1:]
	}
	return s
}

func rankOf(con *Contract) int {
	r := 0
	for _, c := range con.get("rank") {
		if len(c.Args) > 0 {
			fmt.Sscanf(c.Args[0], "%d", &r)
		}
	}
	return r
}

// variantCheck (K4): a call between functions that both declare `decreases` must decrease the
// pair (measure, rank) lexicographically; the measure is bounded below by 0.
func (e *Engine) variantCheck(st *State, fr *Frame, callee *ssa.Function, con *Contract, env *SpecEnv, pos token.Pos) {
	if e.con == nil || fr == nil || fr.fn != e.fn {
		return
	}
	rd, cd := e.con.get("decreases"), con.get("decreases")
	if len(rd) == 0 || len(cd) == 0 {
		e.unboundedRecursion(st, fr, callee, pos)
		return
	}
	renv := e.rootEnv(e.entry, nil)
	renv.fr = nil
	m0 := e.evalSpec(e.entry, e.entry, rd[0].Expr, renv)
	m1 := e.evalSpec(st, st, cd[0].Expr, env)
	m0, m1 = e.unify(m0, m1)
	if m0.K != KInt || m1.K != KInt {
		e.specErr("decreases expressions must be integers")
		return
	}
	w := e.widthOf(m0)
	zero := bvLit(0, w)
	var goal string
	if rankOf(con) < rankOf(e.con) {
		goal = and("(bvsle "+m1.T+" "+m0.T+")", "(bvsge "+m1.T+" "+zero+")")
	} else {
		goal = and("(bvslt "+m1.T+" "+m0.T+")", "(bvsge "+m1.T+" "+zero+")")
	}
	name, where := e.siteName(fr, "variant", pos, shortFn(callee))
	e.oblige(st, name, "K4", "recursion measure ("+rd[0].Text+", rank) decreases at the call and stays >= 0", goal, where, rd[0].Props)
}

func (e *Engine) resultTypeOfSig(sig *types.Signature) types.Type {
	if sig.Results().Len() == 1 {
		return sig.Results().At(0).Type()
	}
	return sig.Results()
}

// forgets: the contract under verification asked not to assume callee postconditions with this label.
func (e *Engine) forgets(label string) bool {
	if e.con == nil || label == "" {
		return false
	}
	for _, c := range e.con.get("forget") {
		for _, a := range c.Args {
			if re, err := regexp.Compile(a); err == nil && re.MatchString(label) {
				return true
			}
		}
	}
	return false
}

func contractSummary(con *Contract) string {
	var parts []string
	for _, c := range con.Clauses {
		switch c.Kind {
		case "pure", "stable":
			parts = append(parts, c.Kind)
		case "requires", "ensures", "assigns", "ghost-effect":
			t := c.Kind + " " + c.Text
			if len(t) > 160 {
				t = t[:160] + "..."
			}
			parts = append(parts, t)
		}
	}
	s := strings.Join(parts, "; ")
	if len(s) > 700 {
		s = s[:700] + "..."
	}
	return s
}

// wantsDispatch: `dispatch METHOD...` in the contract under verification asks for the exact
// ite-chain over every implementer of an interface method even when there are many of them.
func (e *Engine) wantsDispatch(m string) bool {
	if e.con == nil {
		return false
	}
	for _, c := range e.con.get("dispatch") {
		for _, a := range c.Args {
			if a == m {
				return true
			}
		}
	}
	return false
}

// sharesProp: does the verification under way serve one of these properties?
func (e *Engine) sharesProp(ps []string) bool {
	mine := e.props
	if e.con != nil && len(e.con.Props) > 0 {
		mine = append(append([]string{}, mine...), e.con.Props...)
	}
	if len(mine) == 0 {
		return true
	}
	for _, a := range mine {
		for _, b := range ps {
			if a == b {
				return true
			}
		}
	}
	return false
}

// unboundedRecursion: under `recursion-bounded`, a call that can come back to the function being
// verified must be covered by a measure (`decreases` on both ends); otherwise it is a failed K4
// obligation - nothing bounds the recursion.
func (e *Engine) unboundedRecursion(st *State, fr *Frame, callee *ssa.Function, pos token.Pos) {
	if e.con == nil || !e.con.has("recursion-bounded") || callee == nil {
		return
	}
	if callee != e.fn && !e.P.mayReach(callee, map[*ssa.Function]bool{e.fn: true}) {
		return
	}
	name, where := e.siteName(fr, "variant", pos, shortFn(callee))
	e.oblige(st, name, "K4", "this call can re-enter "+shortFn(e.fn)+" and no termination measure covers the cycle", "false", where, e.con.get("recursion-bounded")[0].Props)
}
