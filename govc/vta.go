package main

import (
	"time"

	"golang.org/x/tools/go/callgraph"
	"golang.org/x/tools/go/callgraph/cha"
	"golang.org/x/tools/go/callgraph/vta"
	"golang.org/x/tools/go/ssa"
)

// vtaGraph: Variable Type Analysis call graph over the whole program (sound for dynamic calls
// modulo reflection and unsafe), used to resolve calls through function values and interfaces.
func (P *Program) vtaGraph() *callgraph.Graph {
	P.vtaOnce.Do(func() {
		t0 := time.Now()
		g := vta.CallGraph(P.allFuncs, cha.CallGraph(P.prog))
		P.vta = g
		P.vtaSecs = time.Since(t0).Seconds()
	})
	return P.vta
}

func (P *Program) vtaCallees(fn *ssa.Function) []*callgraph.Edge {
	g := P.vtaGraph()
	if n := g.Nodes[fn]; n != nil {
		return n.Out
	}
	return nil
}


// siteCallees: possible callees of one call site according to VTA.
func (P *Program) siteCallees(caller *ssa.Function, c *ssa.CallCommon) []*ssa.Function {
	var out []*ssa.Function
	seen := map[*ssa.Function]bool{}
	for _, e := range P.vtaCallees(caller) {
		if e.Site != nil && e.Site.Common() == c && e.Callee.Func != nil && !seen[e.Callee.Func] {
			seen[e.Callee.Func] = true
			out = append(out, e.Callee.Func)
		}
	}
	return out
}
