package main

// Evaluation of contract expressions over symbolic states.

import (
	"os"
	"regexp"
	"fmt"
	"go/constant"
	"go/token"
	"go/types"
	"strconv"
	"strings"

	"golang.org/x/tools/go/ssa"
)

func (e *Engine) specErr(format string, a ...interface{}) {
	msg := "SPEC ERROR: " + fmt.Sprintf(format, a...)
	e.note(msg)
	e.specErrors = append(e.specErrors, msg)
}

func (e *Engine) evalSpecBool(cur, old *State, x SExpr, env *SpecEnv) string {
	v := e.evalSpec(cur, old, x, env)
	if v.K != KBool {
		e.specErr("expression is not boolean: %s", specString(x))
		return e.fresh("specerr", "Bool")
	}
	return v.T
}

func boolVal(t string) Val { return Val{K: KBool, Ty: types.Typ[types.Bool], T: t} }

// rootEnv: parameters (entry values), results, named locals of the function under verification.
func (e *Engine) rootEnv(st *State, results []Val) *SpecEnv {
	env := &SpecEnv{vars: map[string]Val{}, fn: e.fn}
	if e.fn.Pkg != nil {
		env.pkg = e.fn.Pkg.Pkg
	}
	env.rootParams = map[string]bool{}
	for k, v := range e.paramVals {
		env.vars[k] = v
		env.rootParams[k] = true
	}
	if results != nil {
		e.bindResults(env, e.fn.Signature, results)
	}
	if len(st.frames) > 0 {
		env.fr = st.frames[0]
	}
	env.free = e.rootFree
	return env
}

func (e *Engine) resolveType(name string, env *SpecEnv) types.Type {
	name = strings.TrimSpace(name)
	if strings.HasPrefix(name, "*") {
		if t := e.resolveType(name[1:], env); t != nil {
			return types.NewPointer(t)
		}
		return nil
	}
	if strings.HasPrefix(name, "[]") {
		if t := e.resolveType(name[2:], env); t != nil {
			return types.NewSlice(t)
		}
		return nil
	}
	if i := strings.LastIndex(name, "."); i >= 0 {
		pkg := e.resolvePkg(name[:i], env)
		if pkg == nil {
			return nil
		}
		if o := pkg.Scope().Lookup(name[i+1:]); o != nil {
			if tn, ok := o.(*types.TypeName); ok {
				return tn.Type()
			}
		}
		return nil
	}
	if o := types.Universe.Lookup(name); o != nil {
		if tn, ok := o.(*types.TypeName); ok {
			return tn.Type()
		}
	}
	if env != nil && env.pkg != nil {
		if o := env.pkg.Scope().Lookup(name); o != nil {
			if tn, ok := o.(*types.TypeName); ok {
				return tn.Type()
			}
		}
	}
	return nil
}

func (e *Engine) resolvePkg(name string, env *SpecEnv) *types.Package {
	if env != nil && env.pkg != nil {
		if m := e.P.specs.Imports[env.pkg.Path()]; m != nil {
			if p, ok := m[name]; ok {
				return e.P.typesPkg(p)
			}
		}
		for _, imp := range env.pkg.Imports() {
			if imp.Name() == name {
				return imp
			}
		}
		if env.pkg.Name() == name {
			return env.pkg
		}
	}
	return e.P.typesPkgByName(name)
}

func (e *Engine) constToVal(c constant.Value, t types.Type) Val {
	return e.constVal(nil, ssa.NewConst(c, t))
}

func (e *Engine) lookupIdent(cur *State, name string, env *SpecEnv) (Val, bool) {
	dollar := strings.HasPrefix(name, "$")
	if dollar {
		name = name[1:]
	} else if v, ok := env.vars[name]; ok {
		// inside the body (loop invariants, call assertions) a parameter name denotes the
		// current value of the (mutable) parameter variable; in pre/postconditions its entry value
		if env.fr != nil && !env.localsOnlyDollar && env.fr.fn == e.fn && env.rootParams[name] {
			best := -1
			for a, id := range env.fr.cells {
				if a.Comment == name && id > best {
					best = id
				}
			}
			if best >= 0 {
				if cv, ok := cur.cells[best]; ok {
					if cv.Ty == nil {
						cv.Ty = v.Ty
					}
					return cv, true
				}
			}
		}
		return v, true
	}
	// rangelen: the length the (only) `for range` loop of the function was started with
	if name == "rangelen" && env.fr != nil {
		var found ssa.Value
		n := 0
		for _, li := range e.P.loopsOf(env.fr.fn) {
			if li.rangeLen != nil {
				found = li.rangeLen
				n++
			}
		}
		if n == 1 {
			if v, ok := env.fr.regs[found]; ok {
				return v, true
			}
		}
	}
	// captured variable of a closure under contract: the current content of the captured cell
	if fv, ok := env.free[name]; ok && !dollar {
		if pt, ok := fv.Ty.Underlying().(*types.Pointer); ok {
			return e.load(cur, fv, pt.Elem()), true
		}
	}
	// named local of the root frame: the live cell with that name (latest allocation wins)
	if env.fr != nil && (dollar || !env.localsOnlyDollar) {
		best := -1
		var bt types.Type
		for a, id := range env.fr.cells {
			if a.Comment == name && id > best {
				best = id
				bt = a.Type().Underlying().(*types.Pointer).Elem()
			}
		}
		if best >= 0 {
			v := cur.cells[best]
			if v.Ty == nil {
				v.Ty = bt
			}
			return v, true
		}
		// heap-allocated (captured) locals
		for r, v := range env.fr.regs {
			if a, ok := r.(*ssa.Alloc); ok && a.Heap && a.Comment == name {
				return e.load(cur, v, a.Type().Underlying().(*types.Pointer).Elem()), true
			}
		}
		// declared in the function but not on this path: an arbitrary value of its type
		for _, b := range env.fr.fn.Blocks {
			for _, ins := range b.Instrs {
				if a, ok := ins.(*ssa.Alloc); ok && a.Comment == name {
					return e.freshVal(cur, "unalloc."+name, a.Type().Underlying().(*types.Pointer).Elem()), true
				}
			}
		}
	}
	if env.pkg != nil {
		if o := env.pkg.Scope().Lookup(name); o != nil {
			return e.objVal(cur, o)
		}
	}
	return Val{}, false
}

func (e *Engine) objVal(cur *State, o types.Object) (Val, bool) {
	switch x := o.(type) {
	case *types.Const:
		return e.constToVal(x.Val(), x.Type()), true
	case *types.Var:
		if g := e.P.globalFor(x); g != nil {
			return e.loadGlobal(cur, g), true
		}
	case *types.Func:
		if fn := e.P.prog.FuncValue(x); fn != nil {
			return Val{K: KFunc, Ty: x.Type(), Fn: fn, T: e.P.reg.fnID(fn.String())}, true
		}
	}
	return Val{}, false
}

func (e *Engine) evalSpec(cur, old *State, x SExpr, env *SpecEnv) Val {
	switch n := x.(type) {
	case SLit:
		switch n.Kind {
		case "int", "char":
			v := n.Val
			if strings.HasPrefix(v, "0x") || strings.HasPrefix(v, "0X") {
				u, _ := strconv.ParseUint(v[2:], 16, 64)
				v = fmt.Sprint(u)
			}
			return Val{K: KInt, T: "lit:" + v}
		case "float":
			f, _ := strconv.ParseFloat(n.Val, 64)
			return Val{K: KFloat, Ty: types.Typ[types.Float64], T: fpLit(f)}
		case "string":
			return e.strLit(n.Val, nil)
		case "bool":
			return boolVal(n.Val)
		case "nil":
			return Val{K: KPtr, T: "0"}
		}
	case SIdent:
		if v, ok := e.lookupIdent(cur, n.Name, env); ok {
			return v
		}
		e.specErr("unknown identifier %q", n.Name)
		return Val{K: KOpaque, T: e.fresh("specerr", "Int")}
	case SType:
		return Val{K: KOpaque, T: "type:" + n.Name}
	case SSel:
		// qualified identifier?
		if id, ok := n.X.(SIdent); ok {
			if _, isVar := e.lookupIdent(cur, id.Name, env); !isVar {
				if pkg := e.resolvePkg(id.Name, env); pkg != nil {
					if o := pkg.Scope().Lookup(n.Name); o != nil {
						if v, ok := e.objVal(cur, o); ok {
							return v
						}
						if _, ok := o.(*types.TypeName); ok {
							return Val{K: KOpaque, T: "type:" + id.Name + "." + n.Name}
						}
					}
					e.specErr("unknown %s.%s", id.Name, n.Name)
					return Val{K: KOpaque, T: e.fresh("specerr", "Int")}
				}
			}
		}
		// a ghost field of a struct that is embedded by value (x.mu.g_held): found through the address
		if strings.HasPrefix(n.Name, "g_") {
			if pt, addr, ok := e.structAddr(cur, old, n.X, env); ok {
				if g := e.P.ghostField(pt, n.Name); g != nil {
					return e.loadGhost(cur, pt, g, addr)
				}
			}
		}
		base := e.evalSpec(cur, old, n.X, env)
		return e.specField(cur, base, n.Name, x)
	case SAssert:
		v := e.evalSpec(cur, old, n.X, env)
		t := e.resolveType(n.Type, env)
		if t == nil {
			e.specErr("unknown type %q", n.Type)
			return v
		}
		if v.K == KIface {
			return e.unboxIface(cur, v, t)
		}
		return e.retype(v, t)
	case SIndex:
		if id, ok := n.X.(SIdent); ok {
			if _, isVar := env.vars[id.Name]; !isVar {
				if g := e.P.ghostGlobal(id.Name); g != nil {
					idx := e.evalSpec(cur, old, n.I, env)
					arr := e.heapGet(cur, ghostKeyOf(g), "(Array Int (_ BitVec 64))")
					return Val{K: KInt, Ty: types.Typ[types.Int], T: sel(arr, ghostIdx(idx))}
				}
			}
		}
		base := e.evalSpec(cur, old, n.X, env)
		idx := e.evalSpec(cur, old, n.I, env)
		switch base.K {
		case KSlice:
			et := base.Ty.Underlying().(*types.Slice).Elem()
			i := e.coerceTo(idx, types.Typ[types.Int])
			return e.loadElem(cur, et, base.T, "(bvadd "+base.X[0]+" "+i.T+")")
		case KMap:
			mt := base.Ty.Underlying().(*types.Map)
			k := e.mapKeyTerm(mt, e.coerceTo(idx, mt.Key()))
			has := and(not(eq(base.T, "0")), e.mapHas(cur, mt, base.T, k))
			return e.iteVal(has, e.mapLoad(cur, mt, base.T, k), e.zeroVal(mt.Elem()))
		case KStr:
			i := e.coerceTo(idx, types.Typ[types.Int])
			e.declStrFuns()
			return Val{K: KInt, Ty: types.Typ[types.Uint8], T: "(strat " + base.T + " " + i.T + ")"}
		}
		e.specErr("cannot index %s", specString(n.X))
		return Val{K: KOpaque, T: e.fresh("specerr", "Int")}
	case SUn:
		v := e.evalSpec(cur, old, n.X, env)
		switch n.Op {
		case "!":
			return boolVal(not(v.T))
		case "-":
			if v.K == KInt && strings.HasPrefix(v.T, "lit:") {
				if strings.HasPrefix(v.T, "lit:-") {
					return Val{K: KInt, T: "lit:" + v.T[5:]}
				}
				return Val{K: KInt, T: "lit:-" + v.T[4:]}
			}
			if v.K == KFloat {
				return Val{K: KFloat, Ty: v.Ty, T: "(fp.neg " + v.T + ")"}
			}
			return Val{K: KInt, Ty: v.Ty, T: "(bvneg " + v.T + ")"}
		case "^":
			return Val{K: KInt, Ty: v.Ty, T: "(bvnot " + v.T + ")"}
		}
	case SBin:
		return e.specBin(cur, old, n, env)
	case SIte:
		c := e.evalSpecBool(cur, old, n.C, env)
		a := e.evalSpec(cur, old, n.A, env)
		b := e.evalSpec(cur, old, n.B, env)
		a, b = e.unify(a, b)
		return e.iteVal(c, a, b)
	case SQuant:
		var binds []string
		saved := map[string]*Val{}
		for _, v := range n.Vars {
			t := e.resolveType(v.Type, env)
			if t == nil {
				e.specErr("unknown type %q in quantifier", v.Type)
				t = types.Typ[types.Int]
			}
			e.nfresh++
			s := sym(fmt.Sprintf("q.%s!%d", v.Name, e.nfresh))
			var bv Val
			switch kindOf(t) {
			case KIface:
				s2 := sym(fmt.Sprintf("q.%s.tag!%d", v.Name, e.nfresh))
				binds = append(binds, "("+s+" Int)", "("+s2+" Int)")
				bv = Val{K: KIface, Ty: t, T: s, X: []string{s2}}
			default:
				binds = append(binds, "("+s+" "+scalarSort(t)+")")
				bv = Val{K: kindOf(t), Ty: t, T: s}
			}
			if old, ok := env.vars[v.Name]; ok {
				o := old
				saved[v.Name] = &o
			} else {
				saved[v.Name] = nil
			}
			env.vars[v.Name] = bv
			if env.rootParams[v.Name] {
				delete(env.rootParams, v.Name)
				defer func(n string) { env.rootParams[n] = true }(v.Name)
			}
		}
		// side facts produced while evaluating the body mention the bound variables: evaluate on
		// scratch copies and drop them
		sc, so := cur.clone(), old
		if old == cur {
			so = sc
		} else {
			so = old.clone()
		}
		body := e.evalSpecBool(sc, so, n.Body, env)
		for k, v := range sc.heap {
			if _, ok := cur.heap[k]; !ok {
				cur.heap[k] = v
			}
		}
		for k, v := range so.heap {
			if _, ok := old.heap[k]; !ok {
				old.heap[k] = v
			}
		}
		for k, o := range saved {
			if o == nil {
				delete(env.vars, k)
			} else {
				env.vars[k] = *o
			}
		}
		q := "exists"
		if n.Forall {
			q = "forall"
		}
		if len(n.Vars) == 1 && len(binds) == 1 && strings.HasSuffix(binds[0], " (_ BitVec 64))") {
			v := strings.TrimSuffix(strings.TrimPrefix(binds[0], "("), " (_ BitVec 64))")
			body = reindexQuant(v, body)
		}
		return boolVal("(" + q + " (" + strings.Join(binds, " ") + ") " + body + ")")
	case SCall:
		return e.specCall(cur, old, n, env)
	}
	e.specErr("cannot evaluate %s", specString(x))
	return Val{K: KOpaque, T: e.fresh("specerr", "Int")}
}

func (e *Engine) specField(cur *State, base Val, name string, x SExpr) Val {
	switch base.K {
	case KPtr:
		pt := e.pointee(base.Ty)
		if pt == nil {
			break
		}
		if s, ok := isStruct(pt); ok {
			if v, ok := e.fieldByName(cur, pt, s, base.T, name); ok {
				return v
			}
			// ghost field
			if g := e.P.ghostField(pt, name); g != nil {
				return e.loadGhost(cur, pt, g, base.T)
			}
		}
	case KStruct:
		if s, ok := isStruct(base.Ty); ok {
			for i := 0; i < s.NumFields(); i++ {
				if s.Field(i).Name() == name && i < len(base.F) {
					v := base.F[i]
					if v.Ty == nil {
						v.Ty = s.Field(i).Type()
					}
					return v
				}
			}
			// promoted through embedded fields
			for i := 0; i < s.NumFields(); i++ {
				if s.Field(i).Embedded() && i < len(base.F) {
					f := base.F[i]
					if f.Ty == nil {
						f.Ty = s.Field(i).Type()
					}
					if f.K == KPtr || f.K == KStruct {
						if e.hasField(f.Ty, name) {
							return e.specField(cur, f, name, x)
						}
					}
				}
			}
		}
	}
	e.specErr("no field %q in %s (base kind %d type %v)", name, specString(x), base.K, base.Ty)
	return Val{K: KOpaque, T: e.fresh("specerr", "Int")}
}

func (e *Engine) hasField(t types.Type, name string) bool {
	if p, ok := t.Underlying().(*types.Pointer); ok {
		t = p.Elem()
	}
	s, ok := isStruct(t)
	if !ok {
		return false
	}
	for i := 0; i < s.NumFields(); i++ {
		if s.Field(i).Name() == name {
			return true
		}
		if s.Field(i).Embedded() && e.hasField(s.Field(i).Type(), name) {
			return true
		}
	}
	return false
}

func (e *Engine) fieldByName(cur *State, owner types.Type, s *types.Struct, addr, name string) (Val, bool) {
	for i := 0; i < s.NumFields(); i++ {
		if s.Field(i).Name() == name {
			return e.loadField(cur, owner, addr, i), true
		}
	}
	for i := 0; i < s.NumFields(); i++ {
		f := s.Field(i)
		if !f.Embedded() || !e.hasField(f.Type(), name) {
			continue
		}
		fv := e.loadField(cur, owner, addr, i)
		switch fv.K {
		case KPtr:
			pt := e.pointee(fv.Ty)
			if ss, ok := isStruct(pt); ok {
				return e.fieldByName(cur, pt, ss, fv.T, name)
			}
		case KStruct:
			return e.specField(cur, fv, name, SIdent{name}), true
		}
	}
	return Val{}, false
}

func (e *Engine) loadGhost(cur *State, owner types.Type, g *GhostField, addr string) Val {
	t := e.resolveType(g.Type, &SpecEnv{})
	if t == nil {
		t = types.Typ[types.Int]
	}
	key := fmt.Sprintf("F:%s.%s:0", typeName(owner), g.Name)
	arr := e.heapGet(cur, key, "(Array Int "+scalarSort(t)+")")
	return Val{K: kindOf(t), Ty: t, T: sel(arr, addr)}
}

func (e *Engine) coerceTo(v Val, t types.Type) Val {
	if v.K == KInt && v.Ty == nil {
		w, _ := intInfo(t)
		return e.retypeLit(v, t, w)
	}
	if v.K == KPtr && v.Ty == nil && v.T == "0" {
		return e.zeroVal(t)
	}
	return v
}

func (e *Engine) coerceLike(v, like Val) Val {
	if like.Ty != nil {
		return e.coerceTo(v, like.Ty)
	}
	return v
}

func (e *Engine) unify(a, b Val) (Val, Val) {
	if a.Ty == nil && b.Ty != nil {
		return e.coerceTo(a, b.Ty), b
	}
	if b.Ty == nil && a.Ty != nil {
		return a, e.coerceTo(b, a.Ty)
	}
	if a.Ty == nil && b.Ty == nil && a.K == KInt {
		return e.coerceTo(a, types.Typ[types.Int]), e.coerceTo(b, types.Typ[types.Int])
	}
	return a, b
}

var goTok = map[string]token.Token{"+": token.ADD, "-": token.SUB, "*": token.MUL, "/": token.QUO, "%": token.REM,
	"&": token.AND, "|": token.OR, "^": token.XOR, "<<": token.SHL, ">>": token.SHR, "&^": token.AND_NOT,
	"==": token.EQL, "!=": token.NEQ, "<": token.LSS, "<=": token.LEQ, ">": token.GTR, ">=": token.GEQ}

func (e *Engine) specBin(cur, old *State, n SBin, env *SpecEnv) Val {
	switch n.Op {
	case "&&":
		return boolVal(and(e.evalSpecBool(cur, old, n.L, env), e.evalSpecBool(cur, old, n.R, env)))
	case "||":
		return boolVal(or(e.evalSpecBool(cur, old, n.L, env), e.evalSpecBool(cur, old, n.R, env)))
	case "==>":
		return boolVal(implies(e.evalSpecBool(cur, old, n.L, env), e.evalSpecBool(cur, old, n.R, env)))
	case "<==>":
		return boolVal(eq(e.evalSpecBool(cur, old, n.L, env), e.evalSpecBool(cur, old, n.R, env)))
	}
	l := e.evalSpec(cur, old, n.L, env)
	r := e.evalSpec(cur, old, n.R, env)
	// type used as a value: typeof(x) == *T handled in specCall; here nil / literals
	l, r = e.unify(l, r)
	if (n.Op == "==" || n.Op == "!=") && (l.K == KStruct || l.K == KSlice && r.K == KSlice && r.T != "0" && l.T != "0") {
		lc, rc := l.comps(), r.comps()
		if len(lc) == len(rc) {
			var cs []string
			for i := range lc {
				cs = append(cs, eq(lc[i], rc[i]))
			}
			t := and(cs...)
			if n.Op == "!=" {
				t = not(t)
			}
			return boolVal(t)
		}
	}
	if (n.Op == "==" || n.Op == "!=") && ((l.K == KIface && r.K == KPtr && r.Ty != nil) || (r.K == KIface && l.K == KPtr && l.Ty != nil)) {
		i, p := l, r
		if r.K == KIface {
			i, p = r, l
		}
		t := and(eq(i.T, p.T), eq(i.X[0], e.P.reg.tagOf(p.Ty)))
		if n.Op == "!=" {
			t = not(t)
		}
		return boolVal(t)
	}
	if (n.Op == "==" || n.Op == "!=") && l.K == KIface && r.K == KIface {
		t := and(eq(l.T, r.T), eq(l.X[0], r.X[0]))
		if r.X[0] == "0" || l.X[0] == "0" {
			o := l
			if l.X[0] == "0" {
				o = r
			}
			t = eq(o.X[0], "0")
		}
		if n.Op == "!=" {
			t = not(t)
		}
		return boolVal(t)
	}
	op := goTok[n.Op]
	lt, rt := l.Ty, r.Ty
	if lt == nil {
		lt = types.Typ[types.Int]
	}
	if rt == nil {
		rt = lt
	}
	var resT types.Type = lt
	switch op {
	case token.EQL, token.NEQ, token.LSS, token.LEQ, token.GTR, token.GEQ:
		resT = types.Typ[types.Bool]
	}
	saveSafe := e.wantSafe
	e.wantSafe = false
	scratch := &State{facts: map[string]bool{}}
	v := e.binop(scratch, nil, op, l, r, lt, rt, resT, token.NoPos)
	e.wantSafe = saveSafe
	// assumptions made while building the term (e.g. strlen >= 0) are harmless facts
	for _, p := range scratch.pc {
		if !strings.Contains(p, "binop!") {
			cur.assume(p)
		}
	}
	return v
}

func (e *Engine) specCall(cur, old *State, n SCall, env *SpecEnv) Val {
	if id, ok := n.Fn.(SIdent); ok {
		arg := func(i int) Val { return e.evalSpec(cur, old, n.Args[i], env) }
		switch id.Name {
		case "old":
			return e.evalSpec(old, old, n.Args[0], env)
		case "len":
			v := arg(0)
			switch v.K {
			case KSlice:
				return Val{K: KInt, Ty: types.Typ[types.Int], T: v.X[1]}
			case KStr:
				return Val{K: KInt, Ty: types.Typ[types.Int], T: e.strlen(cur, v.T)}
			}
			e.specErr("len of %s", specString(n.Args[0]))
		case "cap":
			v := arg(0)
			if v.K == KSlice {
				return Val{K: KInt, Ty: types.Typ[types.Int], T: v.X[2]}
			}
		case "is": // is(v, *T): dynamic type test
			v := arg(0)
			if ty, ok := n.Args[1].(SType); ok {
				t := e.resolveType(ty.Name, env)
				if t == nil {
					e.specErr("unknown type %q", ty.Name)
					return boolVal("false")
				}
				if v.K == KIface {
					return boolVal(eq(v.X[0], e.P.reg.tagOf(t)))
				}
			}
			e.specErr("is(v, *T) expects an interface value and a type")
			return boolVal("false")
		case "valid":
			return boolVal(e.validTerm(cur, arg(0)))
		case "cause": // github.com/pkg/errors.Cause of an error value
			v := arg(0)
			if v.K != KIface {
				e.specErr("cause(x) expects an error value")
				return v
			}
			return e.causeOf(v)
		case "nonnil":
			v := arg(0)
			if v.K == KIface {
				return boolVal(not(eq(v.X[0], "0")))
			}
			if v.K != KPtr && v.K != KMap && v.K != KSlice && v.K != KFunc {
				e.specErr("nonnil(x) expects a reference")
				return boolVal("true")
			}
			return boolVal(not(eq(v.T, "0")))
		case "isnil":
			v := arg(0)
			if v.K == KIface {
				return boolVal(eq(v.X[0], "0"))
			}
			return boolVal(eq(v.T, "0"))
		case "fresh":
			v := arg(0)
			if v.K == KPtr || v.K == KIface || v.K == KMap || v.K == KSlice {
				return boolVal("(>= " + v.T + " " + old.A.term() + ")")
			}
			e.specErr("fresh() of non-reference")
			return boolVal("false")
		case "allocated": // existed before the call
			v := arg(0)
			return boolVal("(< " + v.T + " " + old.A.term() + ")")
		case "unchanged":
			a := e.evalSpec(cur, old, n.Args[0], env)
			b := e.evalSpec(old, old, n.Args[0], env)
			return e.specBin2(cur, "==", a, b)
		case "deref": // value a pointer points to
			v := arg(0)
			if v.K == KPtr && v.Ty != nil {
				if pt := e.pointee(v.Ty); pt != nil {
					return e.loadHeapCell(cur, pt, v.T)
				}
			}
			if v.K == KAddr && v.A != nil && v.A.Ty != nil {
				return e.load(cur, v, v.A.Ty)
			}
			e.specErr("deref() of a non-pointer")
			return Val{K: KOpaque, T: e.fresh("specerr", "Int")}
		case "fst", "snd":
			v := arg(0)
			k := 0
			if id.Name == "snd" {
				k = 1
			}
			if v.K == KTuple && k < len(v.F) {
				return v.F[k]
			}
			e.specErr("%s() expects a tuple", id.Name)
			return Val{K: KOpaque, T: e.fresh("specerr", "Int")}
		case "base": // backing array of a slice
			v := arg(0)
			if v.K == KSlice {
				return Val{K: KPtr, T: v.T}
			}
			e.specErr("base() expects a slice")
			return Val{K: KPtr, T: "0"}
		case "tag":
			v := arg(0)
			return Val{K: KOpaque, T: v.X[0]}
		case "ref":
			v := arg(0)
			return Val{K: KPtr, T: v.T}
		case "has":
			m := arg(0)
			if m.Ty == nil {
				e.specErr("has(m,k) expects a map")
				return boolVal("false")
			}
			if mt, ok := m.Ty.Underlying().(*types.Map); ok {
				k := e.mapKeyTerm(mt, e.coerceTo(arg(1), mt.Key()))
				return boolVal(and(not(eq(m.T, "0")), e.mapHas(cur, mt, m.T, k)))
			}
			e.specErr("has(m,k) expects a map")
			return boolVal("false")
		case "b2i":
			return Val{K: KInt, Ty: types.Typ[types.Int], T: ite(e.evalSpecBool(cur, old, n.Args[0], env), bvLit(1, 64), bvLit(0, 64))}
		case "atloop": // atloop(N, e): e evaluated in the state in which the current iteration of loop N began
			ord := -1
			if lit, ok := n.Args[0].(SLit); ok {
				fmt.Sscanf(lit.Val, "%d", &ord)
			}
			if len(n.Args) == 2 && ord > 0 && env.fr != nil {
				for hb, li := range e.P.loopsOf(env.fr.fn) {
					if li.ordinal == ord {
						if ref := env.fr.loopRef[hb]; ref != nil {
							return e.evalSpec(ref, old, n.Args[1], env)
						}
					}
				}
			}
			e.specErr("atloop(N, e): loop %d has not been entered here", ord)
			return Val{K: KOpaque, T: e.fresh("specerr", "Int")}
		case "kept": // kept("KEYFRAG"): every location of the matching arrays that existed at entry has its entry value
			frag := ""
			if lit, ok := n.Args[0].(SLit); ok && lit.Kind == "string" {
				frag = strings.Trim(lit.Val, "\"")
			}
			if frag == "" {
				e.specErr("kept(\"key fragment\")")
				return boolVal("true")
			}
			keys := map[string]bool{}
			for k := range cur.heap {
				if strings.Contains(k, frag) && !isGhostKey(k) {
					keys[k] = true
				}
			}
			for k := range e.entry.heap {
				if strings.Contains(k, frag) && !isGhostKey(k) {
					keys[k] = true
				}
			}
			var cs []string
			for _, k := range sortedKeys(keys) {
				srt := e.keySort[k]
				if srt == "" {
					continue
				}
				now := e.heapGet(cur, k, srt)
				ent := e.heapGet(e.entry, k, srt)
				if now == ent {
					continue
				}
				if strings.HasPrefix(k, "G:") {
					cs = append(cs, eq(now, ent))
					continue
				}
				e.nfresh++
				a := sym(fmt.Sprintf("q.kept!%d", e.nfresh))
				cs = append(cs, fmt.Sprintf("(forall ((%s Int)) (=> (and (> %s 0) (< %s %s)) (= (select %s %s) (select %s %s))))", a, a, a, e.entry.A.term(), now, a, ent, a))
			}
			return boolVal(and(cs...))
		case "lex": // lexicographic measure for `decreases`: lex(a, b, ...) of ints
			v := Val{K: KTuple}
			for i := range n.Args {
				v.F = append(v.F, e.coerceTo(arg(i), types.Typ[types.Int]))
			}
			return v
		case "same": // structural equality (NaN == NaN), component-wise
			return e.specBin2(cur, "==", arg(0), e.coerceLike(arg(1), arg(0)))
		case "isZero":
			return boolVal("(fp.isZero " + arg(0).T + ")")
		case "fadd", "fsub", "fmul", "fdiv":
			a, b := arg(0), arg(1)
			return Val{K: KFloat, Ty: types.Typ[types.Float64], T: "(fp." + id.Name[1:] + " RNE " + a.T + " " + b.T + ")"}
		case "isNaN":
			return boolVal("(fp.isNaN " + arg(0).T + ")")
		case "isInf":
			return boolVal("(fp.isInfinite " + arg(0).T + ")")
		case "uf", "ufb": // uninterpreted function application: uf("name", args...) / ufb (boolean)
			if sl, ok := n.Args[0].(SLit); ok {
				var ts, srts []string
				for i := 1; i < len(n.Args); i++ {
					a := arg(i)
					if a.Ty == nil && a.K == KInt {
						a = e.coerceTo(a, types.Typ[types.Int])
					}
					for k, c := range a.comps() {
						ts = append(ts, c)
						if a.Ty != nil && k < len(leaves(a.Ty)) {
							srts = append(srts, leaves(a.Ty)[k].Sort)
						} else {
							srts = append(srts, "Int")
						}
					}
				}
				ret := "Int"
				if id.Name == "ufb" {
					ret = "Bool"
				}
				fn := sym("uf." + sl.Val + "/" + strings.Join(srts, ","))
				e.declFun(fn, "("+strings.Join(srts, " ")+") "+ret)
				t := "(" + fn + " " + strings.Join(ts, " ") + ")"
				if id.Name == "ufb" {
					return boolVal(t)
				}
				return Val{K: KStr, Ty: types.Typ[types.String], T: t}
			}
			e.specErr("uf(\"name\", args...)")
			return boolVal("false")
		case "before": // before(ghostGlobal, key): value in the entry state, key evaluated now
			if id, ok := n.Args[0].(SIdent); ok {
				if g := e.P.ghostGlobal(id.Name); g != nil {
					idx := arg(1)
					arr := e.heapGet(old, ghostKeyOf(g), "(Array Int (_ BitVec 64))")
					return Val{K: KInt, Ty: types.Typ[types.Int], T: sel(arr, ghostIdx(idx))}
				}
			}
			e.specErr("before(ghostGlobal, key)")
			return Val{K: KInt, Ty: types.Typ[types.Int], T: bvLit(0, 64)}
		case "calls": // number of calls to a named callee on this path (needs `count-calls`)
			if sl, ok := n.Args[0].(SLit); ok {
				k := 0
				fmt.Sscanf(cur.flags["calls:"+sl.Val], "%d", &k)
				return Val{K: KInt, Ty: types.Typ[types.Int], T: bvLit(uint64(k), 64)}
			}
		case "called":
			if s, ok := n.Args[0].(SLit); ok {
				if f, ok := cur.flags["called:"+s.Val]; ok {
					return boolVal(f)
				}
				return boolVal("false")
			}
		case "rotl64", "rotr64":
			x := e.coerceTo(arg(0), types.Typ[types.Int64])
			k := e.coerceTo(arg(1), types.Typ[types.Int64])
			km := "(bvand " + k.T + " #x000000000000003f)"
			op := "bvshl"
			op2 := "bvlshr"
			if id.Name == "rotr64" {
				op, op2 = op2, op
			}
			return Val{K: KInt, Ty: types.Typ[types.Int64], T: "(bvor (" + op + " " + x.T + " " + km + ") (" + op2 + " " + x.T + " (bvand (bvsub #x0000000000000040 " + km + ") #x000000000000003f)))"}
		case "noOvfAdd", "noOvfSub", "noOvfMul":
			a := e.coerceTo(arg(0), types.Typ[types.Int64])
			b := e.coerceTo(arg(1), types.Typ[types.Int64])
			se := func(t string, n int) string { return fmt.Sprintf("((_ sign_extend %d) %s)", n, t) }
			switch id.Name {
			case "noOvfAdd":
				return boolVal(eq(se("(bvadd "+a.T+" "+b.T+")", 1), "(bvadd "+se(a.T, 1)+" "+se(b.T, 1)+")"))
			case "noOvfSub":
				return boolVal(eq(se("(bvsub "+a.T+" "+b.T+")", 1), "(bvsub "+se(a.T, 1)+" "+se(b.T, 1)+")"))
			case "noOvfMul":
				return boolVal(eq(se("(bvmul "+a.T+" "+b.T+")", 64), "(bvmul "+se(a.T, 64)+" "+se(b.T, 64)+")"))
			}
		}
		// conversions T(x)
		if t := e.resolveType(id.Name, env); t != nil && len(n.Args) == 1 {
			v := arg(0)
			if v.Ty == nil {
				return e.coerceTo(v, t)
			}
			return e.convert(cur, v, v.Ty, t)
		}
		// user predicates
		if p, ok := e.P.specs.Preds[id.Name]; ok {
			if len(p.Params) != len(n.Args) {
				e.specErr("pred %s: arity", id.Name)
				return boolVal("false")
			}
			saved := map[string]*Val{}
			vals := make([]Val, len(n.Args))
			for i := range n.Args {
				vals[i] = arg(i)
			}
			for i, pp := range p.Params {
				if o, ok := env.vars[pp.Name]; ok {
					oo := o
					saved[pp.Name] = &oo
				} else {
					saved[pp.Name] = nil
				}
				v := vals[i]
				if pp.Type != "" {
					if t := e.resolveType(pp.Type, env); t != nil {
						v = e.coerceTo(v, t)
					}
				}
				env.vars[pp.Name] = v
				if env.rootParams[pp.Name] {
					delete(env.rootParams, pp.Name)
					defer func(n string) { env.rootParams[n] = true }(pp.Name)
				}
			}
			r := e.evalSpec(cur, old, p.Body, env)
			for k, o := range saved {
				if o == nil {
					delete(env.vars, k)
				} else {
					env.vars[k] = *o
				}
			}
			return r
		}
		// plain function of the package
		if v, ok := e.lookupIdent(cur, id.Name, env); ok && v.K == KFunc && v.Fn != nil {
			var args []Val
			for i := range n.Args {
				args = append(args, e.evalSpec(cur, old, n.Args[i], env))
			}
			for i, p := range v.Fn.Params {
				if i < len(args) {
					args[i] = e.coerceTo(args[i], p.Type())
				}
			}
			if con := e.P.contractFor(v.Fn); con != nil && con.has("stable") {
				e.stableMode = true
				if con := e.P.contractFor(v.Fn); con != nil && con.Extern {
					e.usedExterns[v.Fn.String()+" (ASSUMED contract, not proved: "+contractSummary(con)+")"] = true
				}
				r := e.pureResult(cur, "stable."+v.Fn.String(), args, e.resultTypeOfSig(v.Fn.Signature), true)
				e.stableMode = false
				return r
			}
			if r, ok := e.specSummary(cur, v.Fn, args); ok {
				return r
			}
			e.specErr("function %s is not a pure summary", id.Name)
		}
		e.specErr("unknown spec function %q", id.Name)
		return Val{K: KOpaque, T: e.fresh("specerr", "Int")}
	}
	// method call / qualified function
	if sel, ok := n.Fn.(SSel); ok {
		if id, ok := sel.X.(SIdent); ok {
			if _, isVar := e.lookupIdent(cur, id.Name, env); !isVar {
				if pkg := e.resolvePkg(id.Name, env); pkg != nil {
					o := pkg.Scope().Lookup(sel.Name)
					if tn, ok := o.(*types.TypeName); ok && len(n.Args) == 1 { // conversion pkg.T(x)
						v := e.evalSpec(cur, old, n.Args[0], env)
						if v.Ty == nil {
							return e.coerceTo(v, tn.Type())
						}
						return e.convert(cur, v, v.Ty, tn.Type())
					}
					if f, ok := o.(*types.Func); ok {
						if fn := e.P.prog.FuncValue(f); fn != nil {
							var args []Val
							for i := range n.Args {
								a := e.evalSpec(cur, old, n.Args[i], env)
								if i < len(fn.Params) {
									a = e.coerceTo(a, fn.Params[i].Type())
								}
								args = append(args, a)
							}
							if r, ok := e.specSummary(cur, fn, args); ok {
								return r
							}
						}
					}
					e.specErr("cannot call %s.%s in a contract", id.Name, sel.Name)
					return Val{K: KOpaque, T: e.fresh("specerr", "Int")}
				}
			}
		}
		recv := e.evalSpec(cur, old, sel.X, env)
		var args []Val
		for i := range n.Args {
			args = append(args, e.evalSpec(cur, old, n.Args[i], env))
		}
		if recv.Ty != nil {
			if recv.K == KIface {
				if it, ok := recv.Ty.Underlying().(*types.Interface); ok {
					for i := 0; i < it.NumMethods(); i++ {
						if it.Method(i).Name() == sel.Name {
							c := &ssa.CallCommon{Method: it.Method(i)}
							impls := e.P.implementers(recv.Ty)
							// in contracts the closed world is always assumed (valid() states it)
							if v, ok := e.specDispatch(cur, c, recv, args, impls); ok {
								return v
							}
						}
					}
				}
			} else {
				ms := e.P.prog.MethodSets.MethodSet(recv.Ty)
				for i := 0; i < ms.Len(); i++ {
					if ms.At(i).Obj().Name() == sel.Name {
						if fn := e.P.prog.MethodValue(ms.At(i)); fn != nil {
							if con := e.P.contractFor(fn); con != nil && con.has("stable") {
								e.stableMode = true
								r := e.pureResult(cur, "stable."+fn.String(), append([]Val{recv}, args...), e.resultTypeOfSig(fn.Signature), true)
								e.stableMode = false
								return r
							}
							if r, ok := e.specSummary(cur, fn, append([]Val{recv}, args...)); ok {
								return r
							}
						}
					}
				}
			}
		}
		e.specErr("cannot evaluate method call %s", specString(n))
	}
	return Val{K: KOpaque, T: e.fresh("specerr", "Int")}
}

func (e *Engine) specBin2(cur *State, op string, a, b Val) Val {
	la, lb := a.comps(), b.comps()
	if len(la) != len(lb) {
		return boolVal("false")
	}
	var cs []string
	for i := range la {
		cs = append(cs, eq(la[i], lb[i]))
	}
	return boolVal(and(cs...))
}

// validTerm: the value is a well-formed non-nil instance of its static type (closed world).
func (e *Engine) validTerm(st *State, v Val) string {
	switch v.K {
	case KIface:
		impls := e.P.implementers(v.Ty)
		var ds []string
		for _, t := range impls {
			ds = append(ds, eq(v.X[0], e.P.reg.tagOf(t)))
		}
		if len(ds) == 0 {
			return not(eq(v.X[0], "0"))
		}
		return and(or(ds...), "(> "+v.T+" 0)")
	case KPtr, KMap:
		return "(> " + v.T + " 0)"
	case KSlice:
		return "true"
	}
	return "true"
}

// finish: root function returned. Check postconditions and the frame.
func (e *Engine) finish(st *State, rs []Val, root *Frame) {
	if e.con == nil {
		return
	}
	env := e.rootEnv(st, rs)
	env.fr = root
	env.localsOnlyDollar = true
	e.noAssume = true
	defer func() { e.noAssume = false }()
	for k, c := range e.con.get("ensures") {
		nerr, nnote := len(e.specErrors), len(e.notes)
		g := e.evalSpecBool(st, e.entry, c.Expr, env)
		if c.Optional && len(e.specErrors) > nerr {
			e.specErrors, e.notes = e.specErrors[:nerr], e.notes[:nnote]
			continue
		}
		lbl := c.Label
		if lbl == "" {
			lbl = fmt.Sprint(k + 1)
		}
		kind := "K2"
		if e.con.Lemma {
			kind = "K6"
		}
		if os.Getenv("GOVC_DBGPOST") == lbl {
			fmt.Fprintln(os.Stderr, "POST", lbl, len(g), g[:min(len(g), 300)])
		}
		e.oblige(st, fmt.Sprintf("%s#post:%s", e.fnShort(), lbl), kind, c.Text, g, "return", c.Props)
	}
	for _, c := range e.con.get("mustcall") {
		cond := e.evalSpecBool(st, e.entry, c.Expr, env)
		flag, ok := st.flags["called:"+c.Args[0]]
		if !ok {
			flag = "false"
		}
		e.oblige(st, fmt.Sprintf("%s#mustcall:%s %s", e.fnShort(), c.Args[0], c.Label), "K5", c.Text, implies(cond, flag), "return", c.Props)
	}
	for _, c := range e.con.get("assigns") {
		e.checkFrame(st, c, env)
	}
	if keep := e.con.preserved(); len(keep) > 0 && !e.con.has("by-induction") {
		// `preserves KEY...` on a function with a body: each named array is at return what it was at entry
		pc := e.con.get("preserves")[0]
		for _, key := range sortedKeys(st.heap) {
			hit := false
			for _, k := range keep {
				if strings.Contains(key, k) {
					hit = true
				}
			}
			if !hit {
				continue
			}
			ent, ok := e.entry.heap[key]
			if !ok {
				ent = e.heapGet(e.entry, key, e.keySort[key])
			}
			if st.heap[key] == ent {
				continue
			}
			// every location that existed at entry keeps its value (objects allocated since are exempt)
			k := e.fresh("pr.k", "Int")
			exists := fmt.Sprintf("(and (> %s 0) (< %s %s))", k, k, e.entry.A.term())
			var same string
			if strings.HasPrefix(key, "F:") || strings.HasPrefix(key, "C:") {
				same = eq(sel(st.heap[key], k), sel(ent, k))
			} else if strings.HasPrefix(key, "G:") {
				same = eq(st.heap[key], ent)
				exists = "true"
			} else {
				k2 := e.fresh("pr.k2", innerIndexSort(e.keySort[key]))
				same = eq(sel(sel(st.heap[key], k), k2), sel(sel(ent, k), k2))
			}
			e.oblige(st, fmt.Sprintf("%s#preserves:%s", e.fnShort(), key), "K3", "locations that existed at entry are unchanged at return: "+pc.Text, implies(exists, same), "return", pc.Props)
		}
		if st.epoch != e.entry.epoch {
			e.oblige(st, fmt.Sprintf("%s#preserves:<havoc>", e.fnShort()), "K3", "a callee without contract or frame ran: nothing is known about what it wrote", "false", "return", pc.Props)
		}
		for _, ph := range st.pending {
			for _, sub := range ph.eff.flat() {
				for _, k := range keep {
					if sub.mayHitFragment(k) && !sub.hitsOnlyTouched(k, st.heap) {
						e.oblige(st, fmt.Sprintf("%s#preserves:%s<callee>", e.fnShort(), k), "K3", "a callee may write arrays matching "+k, "false", "return", pc.Props)
					}
				}
			}
		}
	}
	if e.con.has("pure") && !e.con.has("assigns") {
		// `pure` on a function with a body is a claim to be proved: it assigns nothing
		pc := e.con.get("pure")[0]
		e.checkFrame(st, &Clause{Kind: "assigns", Text: "nothing (pure)", Label: "pure", Props: pc.Props}, env)
	}
}

// checkFrame: every heap location that existed at entry and is not named by `assigns` has its
// entry value at exit. One obligation per touched array (skolemised index).
func (e *Engine) checkFrame(st *State, c *Clause, env *SpecEnv) {
	e.checkFrameRel(st, e.entry, c, env, "assigns", "return")
}

// checkFrameRel: every heap location that existed in ref and is not named by the frame clause has
// its ref value in st. Locations are evaluated in ref.
func (e *Engine) checkFrameRel(st, ref *State, c *Clause, env *SpecEnv, kind, where string) {
	type allowed struct {
		prefix string // key prefix
		idx    string // index term ("" = any)
		idx2   string
		size   int64
		cond   string
	}
	var al []allowed
	external := false
	foreign := ""
	for _, loc := range c.Locs {
		switch x := loc.(type) {
		case SIdent:
			if x.Name == "heap" || x.Name == "everything" {
				return
			}
			if x.Name == "external" {
				external = true
			}
			if x.Name == "foreign" && env.pkg != nil {
				foreign = "F:" + strings.TrimPrefix(env.pkg.Path(), falcoMod+"/") + "."
			}
			continue
		case SSel:
			if pt, addr, ok := e.structAddr(ref, ref, x.X, env); ok {
				if s, ok := isStruct(pt); ok {
					done := false
					for i := 0; i < s.NumFields(); i++ {
						if s.Field(i).Name() == x.Name {
							done = true
							if _, nested := isStruct(s.Field(i).Type()); nested {
								al = append(al, allowed{prefix: "F:", idx: addInt(addr, e.offsetOf(s, i)), size: sizeOf(s.Field(i).Type()), cond: "true"})
							} else {
								al = append(al, allowed{prefix: fmt.Sprintf("F:%s.%s:", typeName(pt), x.Name), idx: addr, size: 1, cond: "true"})
							}
						}
					}
					if done {
						continue
					}
				}
			}
			base := e.evalSpec(ref, ref, x.X, env)
			if x.Name == "all" || x.Name == "_" {
				switch base.K {
				case KPtr:
					pt := e.pointee(base.Ty)
					al = append(al, allowed{prefix: "F:", idx: base.T, size: sizeOf(pt), cond: "true"})
					al = append(al, allowed{prefix: "C:", idx: base.T, size: 1, cond: "true"})
				case KIface:
					al = append(al, allowed{prefix: "F:", idx: base.T, size: 1, cond: "true"})
				case KSlice:
					al = append(al, allowed{prefix: "E:", idx: base.T, cond: "true"})
				case KMap:
					al = append(al, allowed{prefix: "M", idx: base.T, cond: "true"})
				}
				continue
			}
			if base.K == KPtr {
				pt := e.pointee(base.Ty)
				if s, ok := isStruct(pt); ok {
					for i := 0; i < s.NumFields(); i++ {
						if s.Field(i).Name() == x.Name {
							if _, nested := isStruct(s.Field(i).Type()); nested {
								al = append(al, allowed{prefix: "F:", idx: addInt(base.T, e.offsetOf(s, i)), size: sizeOf(s.Field(i).Type()), cond: "true"})
							} else {
								al = append(al, allowed{prefix: fmt.Sprintf("F:%s.%s:", typeName(pt), x.Name), idx: base.T, size: 1, cond: "true"})
							}
						}
					}
				}
			}
		case SIndex:
			base := e.evalSpec(ref, ref, x.X, env)
			switch base.K {
			case KSlice:
				al = append(al, allowed{prefix: "E:", idx: base.T, cond: "true"})
			case KMap:
				a := allowed{prefix: "M", idx: base.T, cond: "true"}
				if id, ok := x.I.(SIdent); !(ok && (id.Name == "_" || id.Name == "all")) {
					mt := base.Ty.Underlying().(*types.Map)
					a.idx2 = e.mapKeyTerm(mt, e.coerceTo(e.evalSpec(ref, ref, x.I, env), mt.Key()))
				}
				al = append(al, a)
			}
		case SCall:
			if id, ok := x.Fn.(SIdent); ok && id.Name == "deref" {
				base := e.evalSpec(ref, ref, x.Args[0], env)
				al = append(al, allowed{prefix: "F:", idx: base.T, size: 1, cond: "true"})
			}
		}
	}
	if st.epoch != ref.epoch {
		e.oblige(st, fmt.Sprintf("%s#"+kind+":<havoc>", e.fnShort()), "K3", "a callee without contract or frame ran: nothing is known about what it wrote ("+c.Text+")", "false", "return", c.Props)
	}
	var pend []pendingHavoc
	for _, ph := range st.pending {
		for _, sub := range ph.eff.flat() {
			pend = append(pend, pendingHavoc{eff: sub, epoch: ph.epoch})
		}
	}
	for _, ph := range pend {
		if ph.eff.All && !(foreign != "" && ph.eff.Except == foreign) {
			e.oblige(st, fmt.Sprintf("%s#"+kind+":<foreign havoc>", e.fnShort()), "K3", "a callee in another package without contract ran ("+c.Text+")", "false", "return", c.Props)
		}
		for _, k := range sortedKeys(ph.eff.Keys) {
			touched := false
			for key := range st.heap {
				if strings.HasPrefix(key, k) {
					touched = true
				}
			}
			if !touched {
				// written by a callee (inferred effect) but never inspected here: cannot be framed
				okAll := (external && keyIsExternal(k)) || (foreign != "" && !strings.HasPrefix(k, foreign))
				for _, a := range al {
					if a.idx == "" && strings.HasPrefix(k, a.prefix) {
						okAll = true
					}
				}
				if !okAll {
					e.oblige(st, fmt.Sprintf("%s#"+kind+":%s<callee>", e.fnShort(), k), "K3", "a callee may write "+k+" ("+c.Text+")", "false", "return", c.Props)
				}
			}
		}
	}
	for _, key := range sortedKeys(st.heap) {
		if isGhostKey(key) {
			continue // ghost state changes only through ghost-effect clauses, never through code
		}
		exit := st.heap[key]
		ent, ok := ref.heap[key]
		if !ok {
			ent = e.heapGet(ref, key, e.keySort[key])
		}
		if exit == ent {
			continue
		}
		if external && keyIsExternal(key) {
			continue
		}
		if foreign != "" && !strings.HasPrefix(key, foreign) {
			continue
		}
		if strings.HasPrefix(key, "G:") {
			named := false
			for _, loc := range c.Locs {
				if id, ok := loc.(SIdent); ok && strings.Contains(key, "."+id.Name+":") {
					named = true // the frame clause names this package-level variable
				}
			}
			if named {
				continue
			}
			e.oblige(st, fmt.Sprintf("%s#"+kind+":%s", e.fnShort(), key), "K3", "global unchanged: "+c.Text, eq(exit, ent), "return", c.Props)
			continue
		}
		k := e.fresh("fr.k", "Int")
		var differs string
		var k2 string
		if strings.HasPrefix(key, "F:") || strings.HasPrefix(key, "C:") {
			differs = not(eq(sel(exit, k), sel(ent, k)))
		} else {
			// 2-D arrays: some inner index differs
			inner := e.keySort[key]
			// inner sort: (Array Int (Array KS VS)) -> KS
			ks := innerIndexSort(inner)
			k2 = e.fresh("fr.k2", ks)
			differs = not(eq(sel(sel(exit, k), k2), sel(sel(ent, k), k2)))
		}
		var oks []string
		for _, a := range al {
			if !strings.HasPrefix(key, a.prefix) {
				continue
			}
			if a.size > 1 {
				oks = append(oks, fmt.Sprintf("(and (>= %s %s) (< %s %s))", k, a.idx, k, addInt(a.idx, a.size)))
			} else if a.idx2 != "" && k2 != "" {
				oks = append(oks, and(eq(k, a.idx), eq(k2, a.idx2)))
			} else {
				oks = append(oks, eq(k, a.idx))
			}
		}
		// locations that did not exist at entry are exempt
		existed := fmt.Sprintf("(and (> %s 0) (< %s %s))", k, k, ref.A.term())
		goal := implies(and(existed, differs), or(oks...))
		e.oblige(st, fmt.Sprintf("%s#"+kind+":%s", e.fnShort(), key), "K3", "only `"+c.Text+"` may change ("+key+")", goal, where, c.Props)
	}
}

func innerIndexSort(s string) string {
	// "(Array Int (Array KS VS))"
	s = strings.TrimPrefix(s, "(Array Int (Array ")
	if strings.HasPrefix(s, "(") {
		d := 0
		for i, c := range s {
			if c == '(' {
				d++
			} else if c == ')' {
				d--
				if d == 0 {
					return s[:i+1]
				}
			}
		}
	}
	return strings.SplitN(s, " ", 2)[0]
}


// structAddr resolves an expression denoting a struct *location* (a pointer to a struct, or a
// by-value struct field reached from one) to (struct type, address term).
func (e *Engine) structAddr(cur, old *State, x SExpr, env *SpecEnv) (types.Type, string, bool) {
	if sel, ok := x.(SSel); ok {
		if pt, addr, ok := e.structAddr(cur, old, sel.X, env); ok {
			if s, ok := isStruct(pt); ok {
				for i := 0; i < s.NumFields(); i++ {
					if s.Field(i).Name() == sel.Name {
						ft := s.Field(i).Type()
						if _, nested := isStruct(ft); nested {
							return ft, addInt(addr, e.offsetOf(s, i)), true
						}
						if p, isP := ft.Underlying().(*types.Pointer); isP {
							v := e.loadField(cur, pt, addr, i)
							return p.Elem(), v.T, true
						}
						return nil, "", false
					}
				}
			}
		}
	}
	v := e.evalSpec(cur, old, x, env)
	if v.K == KPtr && v.Ty != nil {
		if pt := e.pointee(v.Ty); pt != nil {
			if _, ok := isStruct(pt); ok {
				return pt, v.T, true
			}
		}
	}
	return nil, "", false
}

// reindexQuant rewrites a quantifier body whose bound variable k (64-bit) is used as `OFF + k` (an
// element of a slice with offset OFF) so that the bound variable is the absolute position itself:
// k' = OFF + k is a bijection on 64-bit vectors, `(bvadd OFF k)` becomes k' and every other use of k
// becomes `(bvsub k' OFF)`. The formula is equivalent; array reads then have the plain bound
// variable as index, which is what the solvers' instantiation needs.
func reindexQuant(v, body string) string {
	pat := " " + v + ")"
	counts := map[string]int{}
	for i := 0; i+len(pat) <= len(body); i++ {
		if body[i:i+len(pat)] != pat {
			continue
		}
		// walk back to the matching "(" of the enclosing application
		d := 0
		j := i - 1
		for ; j >= 0; j-- {
			c := body[j]
			if c == ')' {
				d++
			} else if c == '(' {
				if d == 0 {
					break
				}
				d--
			}
		}
		if j < 0 {
			continue
		}
		app := body[j : i+len(pat)]
		if !strings.HasPrefix(app, "(bvadd ") {
			continue
		}
		off := strings.TrimSpace(app[len("(bvadd ") : len(app)-len(pat)])
		if off == "" || strings.Contains(off, v) || len(sexpParts("("+off+")")) != 1 {
			continue
		}
		counts[off]++
	}
	best, bn := "", 0
	for o, c := range counts {
		if c > bn || (c == bn && o < best) {
			best, bn = o, c
		}
	}
	if bn == 0 {
		return body
	}
	// OFF must not mention variables bound inside this body
	for _, m := range boundVarRe.FindAllString(body, -1) {
		name := strings.TrimSuffix(strings.TrimPrefix(m, "(("), " ")
		if name != v && strings.Contains(best, name) {
			return body
		}
	}
	if bvz, ok := bvConst(best); ok && bvz == 0 {
		return strings.ReplaceAll(body, "(bvadd "+best+" "+v+")", v)
	}
	const mark = "\x00REIDX\x00"
	out := strings.ReplaceAll(body, "(bvadd "+best+" "+v+")", mark)
	out = strings.ReplaceAll(out, v, "(bvsub "+v+" "+best+")")
	return strings.ReplaceAll(out, mark, v)
}

var boundVarRe = regexp.MustCompile(`\(\(\|q\.[^|]*\| `)

// specSummary / specDispatch: a function called inside a specification is evaluated for its value
// only; the panic sites inside it are not obligations of the function under verification (safe mode
// is switched off while the summary is computed).
func (e *Engine) specSummary(cur *State, fn *ssa.Function, args []Val) (Val, bool) {
	save := e.wantSafe
	e.wantSafe = false
	defer func() { e.wantSafe = save }()
	return e.pureSummary(cur, fn, args, "true")
}

func (e *Engine) specDispatch(cur *State, c *ssa.CallCommon, recv Val, args []Val, impls []types.Type) (Val, bool) {
	save := e.wantSafe
	e.wantSafe = false
	defer func() { e.wantSafe = save }()
	return e.dispatchPure(cur, nil, c, recv, args, impls, true)
}

// ghostIdx: ghost globals are indexed by Int (string ids, addresses); an integer key is converted.
func ghostIdx(v Val) string {
	if v.K == KInt {
		return "(bv2nat " + v.T + ")"
	}
	return v.T
}
