package main

// SMT-LIB emission and the solver portfolio.

import (
	"bytes"
	"context"
	"fmt"
	"os"
	"os/exec"
	"regexp"
	"strings"
	"sync"
	"time"
)

// solverSem bounds the number of concurrently running solver jobs in the whole process.
var solverSem = make(chan struct{}, 14)

type SolverCfg struct {
	fastTimeoutMs int
	slowTimeoutS  int
	seed          int
	keepDir       string
}

var symRe = regexp.MustCompile(`\|[^|]*\|`)

// usedDecls filters the engine's declarations to those mentioned in body (plus functions).
func (e *Engine) usedDecls(body string) string {
	used := map[string]bool{}
	for _, m := range symRe.FindAllString(body, -1) {
		used[m] = true
	}
	var sb strings.Builder
	for _, d := range e.decls {
		if strings.HasPrefix(d, "(declare-fun ") {
			name := strings.Fields(d[len("(declare-fun "):])[0]
			if strings.Contains(body, "("+name+" ") {
				sb.WriteString(d + "\n")
			}
			continue
		}
		// (declare-const |name| sort)
		m := symRe.FindString(d)
		if m == "" || used[m] {
			sb.WriteString(d + "\n")
		}
	}
	return sb.String()
}

// usedDeclsExtra: q already has its declarations; add those needed only by extra.
func (e *Engine) usedDeclsExtra(extra, q string) string {
	var sb strings.Builder
	for _, m := range symRe.FindAllString(extra, -1) {
		if !strings.Contains(q, "(declare-const "+m+" ") {
			for _, d := range e.decls {
				if strings.HasPrefix(d, "(declare-const "+m+" ") {
					sb.WriteString(d + "\n")
				}
			}
		}
	}
	if sb.Len() == 0 {
		return q
	}
	// declarations must precede use: put them right after the first line
	i := strings.Index(q, "\n")
	return q[:i+1] + sb.String() + q[i+1:]
}

func (e *Engine) axiomText() string {
	var sb strings.Builder
	for _, a := range e.axioms {
		sb.WriteString("(assert " + a + ")\n")
	}
	return sb.String()
}

func caseFormula(c OblCase) string {
	parts := append(append([]string{}, c.PC...), not(c.Goal))
	return and(parts...)
}

// oblBody returns the asserted formula (negated obligation) of o.
func oblBody(o *Obl, withIndicators bool) (string, int) {
	var ds []string
	n := 0
	for i, c := range o.Cases {
		if c.Goal == "true" {
			continue
		}
		n++
		f := caseFormula(c)
		if withIndicators {
			ds = append(ds, fmt.Sprintf("(and |case!%d| %s)", i, f))
		} else {
			ds = append(ds, f)
		}
	}
	return or(ds...), n
}

func (e *Engine) queryText(o *Obl, model bool, logic string) string {
	body, _ := oblBody(o, model)
	var sb strings.Builder
	if model {
		sb.WriteString("(set-option :produce-models true)\n")
	}
	if logic != "" {
		sb.WriteString("(set-logic " + logic + ")\n")
	}
	ax := e.axiomText()
	sb.WriteString(e.usedDecls(body + ax + e.modelTermText()))
	if model {
		for i, c := range o.Cases {
			if c.Goal != "true" {
				sb.WriteString(fmt.Sprintf("(declare-const |case!%d| Bool)\n", i))
			}
		}
	}
	sb.WriteString(ax)
	sb.WriteString("(assert " + body + ")\n(check-sat)\n")
	if model {
		var ts []string
		for i, c := range o.Cases {
			if c.Goal != "true" {
				ts = append(ts, fmt.Sprintf("|case!%d|", i))
			}
		}
		for _, m := range e.modelTerms {
			ts = append(ts, m.term)
		}
		if len(ts) > 0 {
			sb.WriteString("(get-value (" + strings.Join(ts, " ") + "))\n")
		}
	}
	return sb.String()
}

func (e *Engine) modelTermText() string {
	var sb strings.Builder
	for _, m := range e.modelTerms {
		sb.WriteString(m.term + " ")
	}
	return sb.String()
}

type modelTerm struct{ name, term string }

func runSolver(ctx context.Context, bin string, args []string, input string) (string, error) {
	cmd := exec.CommandContext(ctx, bin, args...)
	cmd.Stdin = strings.NewReader(input)
	var out bytes.Buffer
	cmd.Stdout = &out
	cmd.Stderr = &out
	err := cmd.Run()
	return out.String(), err
}

func firstLine(s string) string {
	s = strings.TrimSpace(s)
	if i := strings.Index(s, "\n"); i >= 0 {
		return strings.TrimSpace(s[:i])
	}
	return s
}

// discharge solves all obligations of an engine.
func (e *Engine) discharge(cfg SolverCfg) {
	var todo []*Obl
	parent := map[*Obl]*Obl{}
	for _, name := range e.oblOrder {
		o := e.obls[name]
		body, n := oblBody(o, false)
		if n == 0 {
			o.Status, o.Backend = "unsat", "syntactic"
			continue
		}
		if n > 1 && (len(body) > 60000 || strings.Contains(body, "(forall ") || strings.Contains(body, "(exists ")) {
			// solve each path separately: much easier for the solvers than the disjunction
			for i, c := range o.Cases {
				if c.Goal == "true" {
					continue
				}
				sub := &Obl{Name: fmt.Sprintf("%s [path %d]", o.Name, i), Kind: o.Kind, Cases: []OblCase{c}, Props: o.Props, Text: o.Text}
				parent[sub] = o
				todo = append(todo, sub)
			}
			o.Status = ""
			continue
		}
		todo = append(todo, o)
	}
	defer func() {
		for sub, o := range parent {
			o.Secs += sub.Secs
			switch {
			case sub.Status == "skipped":
			case sub.Status == "unsat":
				if o.Status == "" {
					o.Status, o.Backend = "unsat", sub.Backend
				}
			case o.Status == "" || o.Status == "unsat" || (sub.Status == "sat" && o.Status != "sat"):
				o.Status, o.Backend, o.Model = sub.Status, sub.Backend, sub.Model
				// keep the failing case only, so that case indicators in the model line up
				o.Cases = sub.Cases
			}
		}
	}()
	if d := os.Getenv("GOVC_DUMP"); d != "" {
		for _, o := range todo {
			if strings.Contains(o.Name, d) {
				os.MkdirAll("/tmp/govc-dump", 0o755)
				os.WriteFile("/tmp/govc-dump/"+sanitizeFile(o.Name)+".smt2", []byte(e.queryText(o, true, "")), 0o644)
			}
		}
	}
	if len(todo) == 0 {
		return
	}
	// fast pass: incremental z3-new processes over chunks of obligations (in parallel)
	var pre strings.Builder
	pre.WriteString(fmt.Sprintf("(set-option :timeout %d)\n", cfg.fastTimeoutMs))
	if cfg.seed != 0 {
		pre.WriteString(fmt.Sprintf("(set-option :smt.random_seed %d)\n(set-option :sat.random_seed %d)\n", cfg.seed%1000, cfg.seed%1000))
	}
	for _, d := range e.decls {
		pre.WriteString(d + "\n")
	}
	pre.WriteString(e.axiomText())
	const chunk = 8
	results := make([]string, len(todo))
	secs := make([]float64, len(todo))
	var cwg sync.WaitGroup
	for lo := 0; lo < len(todo); lo += chunk {
		hi := lo + chunk
		if hi > len(todo) {
			hi = len(todo)
		}
		cwg.Add(1)
		solverSem <- struct{}{}
		go func(lo, hi int) {
			defer cwg.Done()
			defer func() { <-solverSem }()
			var sb strings.Builder
			sb.WriteString(pre.String())
			for _, o := range todo[lo:hi] {
				body, _ := oblBody(o, false)
				sb.WriteString("(push)\n(assert " + body + ")\n(check-sat)\n(pop)\n")
			}
			t0 := time.Now()
			ctx, cancel := context.WithTimeout(context.Background(), time.Duration(hi-lo)*time.Duration(cfg.fastTimeoutMs+500)*time.Millisecond+10*time.Second)
			out, _ := runSolver(ctx, "z3-new", []string{"-in"}, sb.String())
			cancel()
			dt := time.Since(t0).Seconds()
			k := lo
			for _, l := range strings.Split(out, "\n") {
				l = strings.TrimSpace(l)
				if l == "sat" || l == "unsat" || l == "unknown" || strings.HasPrefix(l, "(error") {
					if k < hi {
						results[k] = l
						secs[k] = dt / float64(hi-lo)
						k++
					}
				}
			}
		}(lo, hi)
	}
	cwg.Wait()
	var slow []*Obl
	for i, o := range todo {
		r := results[i]
		if r == "" {
			r = "unknown"
		}
		if r == "unsat" {
			o.Status, o.Backend, o.Secs = "unsat", "z3-5.1.0(incremental)", secs[i]
		} else {
			if strings.HasPrefix(r, "(error") {
				o.Model = r
			}
			slow = append(slow, o)
		}
	}
	// slow pass: portfolio per obligation
	var wg sync.WaitGroup
	var pmu sync.Mutex
	failedParent := map[*Obl]int{}
	for _, o := range slow {
		wg.Add(1)
		solverSem <- struct{}{}
		go func(o *Obl) {
			defer wg.Done()
			defer func() { <-solverSem }()
			if par := parent[o]; par != nil {
				// once a path of a split obligation has failed the obligation has failed: do not
				// spend solver time on its other paths
				pmu.Lock()
				n := failedParent[par]
				pmu.Unlock()
				if n >= 1 {
					o.Status, o.Backend = "skipped", "-"
					return
				}
			}
			e.portfolio(o, cfg)
			if par := parent[o]; par != nil && o.Status != "unsat" {
				pmu.Lock()
				failedParent[par]++
				pmu.Unlock()
			}
		}(o)
	}
	wg.Wait()
}

func (e *Engine) portfolio(o *Obl, cfg SolverCfg) {
	type result struct {
		backend, status, out string
		secs                 float64
	}
	q := e.queryText(o, true, "")
	qc := e.queryText(o, true, "ALL")
	if cfg.keepDir != "" {
		os.MkdirAll(cfg.keepDir, 0o755)
		os.WriteFile(cfg.keepDir+"/"+sanitizeFile(o.Name)+".smt2", []byte(q), 0o644)
	}
	ctx, cancel := context.WithTimeout(context.Background(), time.Duration(cfg.slowTimeoutS)*time.Second)
	defer cancel()
	ch := make(chan result, 4)
	run := func(backend, bin string, args []string, input string) {
		t0 := time.Now()
		out, _ := runSolver(ctx, bin, args, input)
		st := firstLine(out)
		if st != "sat" && st != "unsat" {
			if ctx.Err() != nil {
				st = "timeout"
			} else if strings.HasPrefix(st, "(error") {
				st = "error"
			} else if st != "unknown" {
				st = "unknown"
			}
		}
		ch <- result{backend, st, out, time.Since(t0).Seconds()}
	}
	go run("z3-5.1.0", "z3-new", []string{"-in", fmt.Sprintf("-T:%d", cfg.slowTimeoutS)}, q)
	go run("z3-4.8.12", "z3", []string{"-in", fmt.Sprintf("-T:%d", cfg.slowTimeoutS)}, q)
	go run("cvc5-1.0.3", "cvc5", []string{"--lang=smt2", fmt.Sprintf("--tlimit=%d", cfg.slowTimeoutS*1000)}, qc)
	nsolvers := 3
	if strings.Contains(q, "(forall ") || strings.Contains(q, "(exists ") {
		// quantified goals: E-matching sometimes loops on select/store terms where model-based
		// instantiation alone answers at once
		nsolvers = 4
		go run("z3-5.1.0(mbqi)", "z3-new", []string{"-in", "smt.ematching=false", fmt.Sprintf("-T:%d", cfg.slowTimeoutS)}, q)
	}
	var best *result
	for i := 0; i < nsolvers; i++ {
		r := <-ch
		if r.status == "unsat" {
			o.Status, o.Backend, o.Secs = "unsat", r.backend, r.secs
			cancel()
			return
		}
		if r.status == "sat" && (best == nil || best.status != "sat") {
			rr := r
			best = &rr
			// a sat answer is definite too; stop the others
			cancel()
			break
		}
		if best == nil {
			rr := r
			best = &rr
		}
	}
	o.Status, o.Backend, o.Secs = best.status, best.backend, best.secs
	if best.status == "sat" {
		o.Model = best.out
		if len(e.softs) > 0 {
			// prefer a model in which implementation-defined conversions are in range
			var sb strings.Builder
			for _, sft := range e.softs {
				sb.WriteString("(assert " + sft + ")\n")
			}
			type r2 struct{ out string }
			ch2 := make(chan string, 2)
			ctx2, cancel2 := context.WithTimeout(context.Background(), 8*time.Second)
			for _, sv := range []struct {
				bin  string
				args []string
				q    string
			}{{"z3-new", []string{"-in", "-T:8"}, q}, {"cvc5", []string{"--lang=smt2", "--tlimit=8000"}, qc}} {
				sv := sv
				go func() {
					q2 := strings.Replace(sv.q, "(check-sat)", sb.String()+"(check-sat)", 1)
					out2, _ := runSolver(ctx2, sv.bin, sv.args, e.usedDeclsExtra(sb.String(), q2))
					ch2 <- out2
				}()
			}
			for i := 0; i < 2; i++ {
				out2 := <-ch2
				if firstLine(out2) == "sat" {
					o.Model = out2
					break
				}
			}
			cancel2()
		}
	} else if o.Model == "" {
		o.Model = strings.TrimSpace(best.out)
		if len(o.Model) > 2000 {
			o.Model = o.Model[:2000]
		}
	}
}

func sanitizeFile(s string) string {
	r := strings.NewReplacer("/", "_", " ", "_", "*", "p", "(", "", ")", "", "`", "", ":", "_", "#", "_", "\"", "", "'", "", "<", "lt", ">", "gt", "|", "_", "&", "and", "=", "eq", "!", "not", "[", "_", "]", "_", "{", "_", "}", "_", ",", "_", ";", "_", "%", "pct", "\\", "_", "$", "_", "?", "_", "+", "plus")
	s = r.Replace(s)
	if len(s) > 150 {
		s = s[:150]
	}
	return s
}

// parseGetValue parses "((t1 v1) (t2 v2) ...)" into term->value text.
func parseGetValue(out string) map[string]string {
	res := map[string]string{}
	i := strings.Index(out, "((")
	if i < 0 {
		return res
	}
	s := out[i+1:]
	// split top-level pairs
	d := 0
	start := -1
	inq := false
	for k := 0; k < len(s); k++ {
		c := s[k]
		if c == '|' {
			inq = !inq
		}
		if inq {
			continue
		}
		if c == '(' {
			if d == 0 {
				start = k
			}
			d++
		} else if c == ')' {
			d--
			if d == 0 && start >= 0 {
				pair := s[start+1 : k]
				// term is first s-expr
				t, v := splitFirst(pair)
				res[normTerm(t)] = strings.TrimSpace(v)
				start = -1
			}
			if d < 0 {
				break
			}
		}
	}
	return res
}

func normTerm(t string) string {
	t = strings.ReplaceAll(t, "|", "")
	return strings.Join(strings.Fields(t), " ")
}

func splitFirst(s string) (string, string) {
	s = strings.TrimSpace(s)
	if s == "" {
		return "", ""
	}
	if s[0] == '(' {
		d := 0
		inq := false
		for i := 0; i < len(s); i++ {
			if s[i] == '|' {
				inq = !inq
			}
			if inq {
				continue
			}
			if s[i] == '(' {
				d++
			} else if s[i] == ')' {
				d--
				if d == 0 {
					return s[:i+1], s[i+1:]
				}
			}
		}
	}
	if s[0] == '|' {
		j := strings.Index(s[1:], "|")
		return s[:j+2], s[j+2:]
	}
	j := strings.IndexAny(s, " \t\n")
	if j < 0 {
		return s, ""
	}
	return s[:j], s[j:]
}
