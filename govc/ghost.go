package main

// Ghost state: ghost fields (names start with g_) live in heap arrays like real fields but are
// written only by `ghost-effect` clauses. A call can change a ghost field only if the callee can
// reach (in a conservative call graph) a function that carries a ghost-effect on it.

import (
	"go/types"
	"strings"

	"golang.org/x/tools/go/ssa"
)

func isGhostKey(key string) bool { return strings.HasPrefix(key, "F:") && strings.Contains(key, ".g_") }

// ghostKeyOf returns the heap key of a declared ghost field.
func ghostKeyOf(g *GhostField) string { return "F:" + g.Struct + "." + g.Name + ":0" }

// ghostWriters: functions whose contract has a ghost-effect assigning the field.
func (P *Program) ghostWriters(g *GhostField) map[*ssa.Function]bool {
	P.mu.Lock()
	if P.gwCache == nil {
		P.gwCache = map[string]map[*ssa.Function]bool{}
	}
	if m, ok := P.gwCache[g.Name]; ok {
		P.mu.Unlock()
		return m
	}
	P.mu.Unlock()
	m := map[*ssa.Function]bool{}
	for _, c := range P.specs.ByKey {
		for _, cl := range c.get("ghost-effect") {
			if strings.Contains(strings.SplitN(cl.Text, "=", 2)[0], "."+g.Name) {
				if fn := P.findFunc(c.Pkg, c.Key); fn != nil {
					m[fn] = true
				}
			}
		}
	}
	P.mu.Lock()
	P.gwCache[g.Name] = m
	P.mu.Unlock()
	return m
}

// callGraph edges restricted to falco functions; dynamic calls are over-approximated.
func (P *Program) buildCallGraph() {
	P.cgOnce.Do(P.buildCallGraph1)
}

// methodsImplementing: the method `name` of every falco type that implements iface.
func (P *Program) methodsImplementing(iface types.Type, m *types.Func) []*ssa.Function {
	var out []*ssa.Function
	for _, t := range P.implementers(iface) {
		if f := P.prog.LookupMethod(t, m.Pkg(), m.Name()); f != nil {
			out = append(out, f)
		}
	}
	return out
}

func (P *Program) buildCallGraph1() {
	P.cgEdges = map[*ssa.Function][]*ssa.Function{}
	byName := map[string][]*ssa.Function{}
	var addrTaken []*ssa.Function
	taken := map[*ssa.Function]bool{}
	var falcoFns []*ssa.Function
	for fn := range P.allFuncs {
		if !inFalco(fn) || fn.Blocks == nil {
			continue
		}
		falcoFns = append(falcoFns, fn)
		if fn.Signature.Recv() != nil {
			byName[fn.Name()] = append(byName[fn.Name()], fn)
		}
	}
	for _, fn := range falcoFns {
		for _, b := range fn.Blocks {
			for _, ins := range b.Instrs {
				// functions used as values
				var ops []*ssa.Value
				ops = ins.Operands(ops)
				call, isCall := ins.(ssa.CallInstruction)
				for _, op := range ops {
					if op == nil || *op == nil {
						continue
					}
					if f, ok := (*op).(*ssa.Function); ok {
						if isCall && call.Common().Value == f {
							continue
						}
						if !taken[f] && inFalco(f) {
							taken[f] = true
							addrTaken = append(addrTaken, f)
						}
					}
					if mc, ok := (*op).(*ssa.MakeClosure); ok {
						if f, ok := mc.Fn.(*ssa.Function); ok && !taken[f] {
							taken[f] = true
							addrTaken = append(addrTaken, f)
						}
					}
				}
			}
		}
	}
	P.cgDyn = addrTaken
	for _, fn := range falcoFns {
		seen := map[*ssa.Function]bool{}
		add := func(f *ssa.Function) {
			if f != nil && !seen[f] && inFalco(f) && f.Blocks != nil {
				seen[f] = true
				P.cgEdges[fn] = append(P.cgEdges[fn], f)
			}
		}
		addSig := func(sig *types.Signature) {
			for _, f := range addrTaken {
				if sameSig(f.Signature, sig) {
					add(f)
				}
			}
		}
		addIface := func(v ssa.Value) {
			if mi, ok := v.(*ssa.MakeInterface); ok {
				ms := P.prog.MethodSets.MethodSet(mi.X.Type())
				for k := 0; k < ms.Len(); k++ {
					add(P.prog.MethodValue(ms.At(k)))
				}
				return
			}
			if it, ok := v.Type().Underlying().(*types.Interface); ok {
				if it.NumMethods() == 0 {
					// `any`: fmt-style functions call String()/Error()/Format... (assumed heap-pure observers)
					return
				}
				for k := 0; k < it.NumMethods(); k++ {
					for _, f := range P.methodsImplementing(v.Type(), it.Method(k)) {
						add(f)
					}
				}
			}
		}
		for _, b := range fn.Blocks {
			for _, ins := range b.Instrs {
				if mc, ok := ins.(*ssa.MakeClosure); ok {
					_ = mc // closures become callable only where their value flows; covered by signature matching
				}
				if g, ok := ins.(*ssa.Go); ok {
					_ = g
				}
				call, ok := ins.(ssa.CallInstruction)
				if !ok {
					continue
				}
				c := call.Common()
				if c.IsInvoke() {
					for _, f := range P.methodsImplementing(c.Value.Type(), c.Method) {
						add(f)
					}
					continue
				}
				if _, ok := c.Value.(*ssa.Builtin); ok {
					continue
				}
				if callee := c.StaticCallee(); callee != nil {
					if inFalco(callee) {
						add(callee)
						continue
					}
					// external function: may call back what it is given
					for _, a := range c.Args {
						switch a.Type().Underlying().(type) {
						case *types.Signature:
							switch x := a.(type) {
							case *ssa.Function:
								add(x)
							case *ssa.MakeClosure:
								if f, ok := x.Fn.(*ssa.Function); ok {
									add(f)
								}
							default:
								addSig(a.Type().Underlying().(*types.Signature))
							}
						case *types.Interface:
							addIface(a)
						}
					}
					continue
				}
				// dynamic call through a function value
				if sig, ok := c.Value.Type().Underlying().(*types.Signature); ok {
					addSig(sig)
				}
			}
		}
	}
	P.cgIsDyn = map[*ssa.Function]bool{}
}

func sameSig(a, b *types.Signature) bool {
	if a.Params().Len() != b.Params().Len() || a.Results().Len() != b.Results().Len() || a.Variadic() != b.Variadic() {
		return false
	}
	for i := 0; i < a.Params().Len(); i++ {
		if !types.Identical(a.Params().At(i).Type(), b.Params().At(i).Type()) {
			return false
		}
	}
	for i := 0; i < a.Results().Len(); i++ {
		if !types.Identical(a.Results().At(i).Type(), b.Results().At(i).Type()) {
			return false
		}
	}
	return true
}

// mayReach: can a call to `from` lead to a call of one of targets?
func (P *Program) mayReach(from *ssa.Function, targets map[*ssa.Function]bool) bool {
	if len(targets) == 0 {
		return false
	}
	if from == nil {
		return true
	}
	if !inFalco(from) {
		// external code: reaches falco only through callbacks of matching signature / interfaces
		sig := from.Signature
		P.buildCallGraph()
		for k := 0; k < sig.Params().Len(); k++ {
			switch u := sig.Params().At(k).Type().Underlying().(type) {
			case *types.Signature:
				for _, f := range P.cgDyn {
					if sameSig(f.Signature, u) && P.mayReach(f, targets) {
						return true
					}
				}
			case *types.Interface:
				for m := 0; m < u.NumMethods(); m++ {
					for _, f := range P.methodsImplementing(sig.Params().At(k).Type(), u.Method(m)) {
						if P.mayReach(f, targets) {
							return true
						}
					}
				}
			}
		}
		return false
	}
	P.buildCallGraph()
	seen := map[*ssa.Function]bool{}
	stack := []*ssa.Function{from}
	dynDone := false
	for len(stack) > 0 {
		f := stack[len(stack)-1]
		stack = stack[:len(stack)-1]
		if seen[f] {
			continue
		}
		seen[f] = true
		if targets[f] {
			return true
		}
		stack = append(stack, P.cgEdges[f]...)
		if P.cgIsDyn[f] && !dynDone {
			dynDone = true
			stack = append(stack, P.cgDyn...)
		}
	}
	return false
}

// havocGhosts forgets the ghost fields that a call to callee (nil = unknown) may change.
func (e *Engine) havocGhosts(st *State, callees []*ssa.Function, unknown bool) {
	for i := range e.P.specs.Ghosts {
		g := &e.P.specs.Ghosts[i]
		key := ghostKeyOf(g)
		if _, ok := st.heap[key]; !ok {
			continue
		}
		hit := unknown
		w := e.P.ghostWriters(g)
		for _, c := range callees {
			if hit {
				break
			}
			if e.P.mayReach(c, w) {
				hit = true
			}
		}
		if hit {
			e.nfresh++
			n := sym(key + "@g" + itoa(e.nfresh))
			e.decl(n, e.keySort[key])
			st.heap[key] = n
		}
	}
}

// touchGhosts declares every ghost array at function entry so that havocs always see them.
func (e *Engine) touchGhosts(st *State) {
	for i := range e.P.specs.Ghosts {
		g := &e.P.specs.Ghosts[i]
		t := e.resolveType(g.Type, &SpecEnv{})
		if t == nil {
			t = types.Typ[types.Int]
		}
		e.heapGet(st, ghostKeyOf(g), "(Array Int "+scalarSort(t)+")")
	}
}

// applyGhostEffects executes the ghost-effect clauses of con in st (params bound in env).
func (e *Engine) applyGhostEffects(st *State, con *Contract, env *SpecEnv) {
	for _, cl := range con.get("ghost-effect") {
		parts := strings.SplitN(cl.Text, "=", 2)
		if len(parts) != 2 {
			e.specErr("ghost-effect needs `x.g_f = expr`")
			continue
		}
		lhs, err1 := parseSpecExpr(strings.TrimSpace(parts[0]))
		rhs, err2 := parseSpecExpr(strings.TrimSpace(parts[1]))
		if err1 != nil || err2 != nil {
			e.specErr("ghost-effect: %v %v", err1, err2)
			continue
		}
		sel, ok := lhs.(SSel)
		if !ok {
			e.specErr("ghost-effect lhs must be x.g_field")
			continue
		}
		base := e.evalSpec(st, st, sel.X, env)
		pt := e.pointee(base.Ty)
		if base.K != KPtr || pt == nil {
			e.specErr("ghost-effect base is not a pointer")
			continue
		}
		g := e.P.ghostField(pt, sel.Name)
		if g == nil {
			e.specErr("unknown ghost field %s", sel.Name)
			continue
		}
		v := e.evalSpec(st, st, rhs, env)
		t := e.resolveType(g.Type, &SpecEnv{})
		if t != nil {
			v = e.coerceTo(v, t)
		}
		key := ghostKeyOf(g)
		arr := e.heapGet(st, key, "(Array Int "+scalarSort(t)+")")
		st.heap[key] = sto(arr, base.T, v.T)
	}
}


func (P *Program) methodsNamed(name string) []*ssa.Function {
	var out []*ssa.Function
	for fn := range P.allFuncs {
		if inFalco(fn) && fn.Signature.Recv() != nil && fn.Name() == name && fn.Blocks != nil {
			out = append(out, fn)
		}
	}
	return out
}
