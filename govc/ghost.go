package main

// Ghost state: ghost fields (names start with g_) live in heap arrays like real fields but are
// written only by `ghost-effect` clauses. A call can change a ghost field only if the callee can
// reach (in a conservative call graph) a function that carries a ghost-effect on it.

import (
	"go/types"
	"strings"

	"golang.org/x/tools/go/ssa"
)

func isGhostKey(key string) bool { return strings.HasPrefix(key, "F:") && strings.Contains(key, ".g_") }

// ghostKeyOf returns the heap key of a declared ghost field.
func ghostKeyOf(g *GhostField) string {
	if g.Struct == "" {
		return "F:ghost.g_" + g.Name + ":0"
	}
	return "F:" + g.Struct + "." + g.Name + ":0"
}

func (P *Program) ghostGlobal(name string) *GhostField {
	for i := range P.specs.Ghosts {
		if g := &P.specs.Ghosts[i]; g.Struct == "" && g.Name == name {
			return g
		}
	}
	return nil
}

// ghostWriters: functions whose contract has a ghost-effect assigning the field.
func (P *Program) ghostWriters(g *GhostField) map[*ssa.Function]bool {
	P.mu.Lock()
	if P.gwCache == nil {
		P.gwCache = map[string]map[*ssa.Function]bool{}
	}
	if m, ok := P.gwCache[g.Name]; ok {
		P.mu.Unlock()
		return m
	}
	P.mu.Unlock()
	m := map[*ssa.Function]bool{}
	for _, c := range P.specs.ByKey {
		for _, cl := range c.get("ghost-effect") {
			lhs := strings.SplitN(cl.Text, "=", 2)[0]
			if strings.Contains(lhs, "."+g.Name) || (g.Struct == "" && strings.Contains(lhs, g.Name+"[")) {
				if c.Extern {
					for fn := range P.allFuncs {
						if fn.String() == c.Key {
							m[fn] = true
						}
					}
				} else if fn := P.findFunc(c.Pkg, c.Key); fn != nil {
					m[fn] = true
				}
			}
		}
	}
	P.mu.Lock()
	P.gwCache[g.Name] = m
	P.mu.Unlock()
	return m
}

// callGraph edges restricted to falco functions; dynamic calls are over-approximated.
func (P *Program) buildCallGraph() {
	P.cgOnce.Do(P.buildCallGraph1)
}

// methodsImplementing: the method `name` of every falco type that implements iface.
func (P *Program) methodsImplementing(iface types.Type, m *types.Func) []*ssa.Function {
	var out []*ssa.Function
	for _, t := range P.implementers(iface) {
		if f := P.prog.LookupMethod(t, m.Pkg(), m.Name()); f != nil {
			out = append(out, f)
		}
	}
	return out
}

func (P *Program) buildCallGraph1() {
	// edges from the VTA call graph (static calls, interface calls and calls through function values
	// resolved by type propagation over the whole program, standard library included)
	P.cgEdges = map[*ssa.Function][]*ssa.Function{}
	g := P.vtaGraph()
	for fn, n := range g.Nodes {
		if fn == nil {
			continue
		}
		seen := map[*ssa.Function]bool{}
		for _, e := range n.Out {
			c := e.Callee.Func
			if c != nil && !seen[c] {
				seen[c] = true
				P.cgEdges[fn] = append(P.cgEdges[fn], c)
			}
		}
	}
	P.cgIsDyn = map[*ssa.Function]bool{}
}

func sameSig(a, b *types.Signature) bool {
	if a.Params().Len() != b.Params().Len() || a.Results().Len() != b.Results().Len() || a.Variadic() != b.Variadic() {
		return false
	}
	for i := 0; i < a.Params().Len(); i++ {
		if !types.Identical(a.Params().At(i).Type(), b.Params().At(i).Type()) {
			return false
		}
	}
	for i := 0; i < a.Results().Len(); i++ {
		if !types.Identical(a.Results().At(i).Type(), b.Results().At(i).Type()) {
			return false
		}
	}
	return true
}

// mayReach: can a call to `from` lead to a call of one of targets?
func (P *Program) mayReach(from *ssa.Function, targets map[*ssa.Function]bool) bool {
	if len(targets) == 0 {
		return false
	}
	if from == nil {
		return true
	}
	found := false
	P.reachWalk(from, func(f *ssa.Function) bool {
		if targets[f] {
			found = true
			return false
		}
		return true
	})
	return found
}

// havocGhosts forgets the ghost fields that a call to callee (nil = unknown) may change.
func (e *Engine) havocGhosts(st *State, callees []*ssa.Function, unknown bool) {
	for i := range e.P.specs.Ghosts {
		g := &e.P.specs.Ghosts[i]
		key := ghostKeyOf(g)
		if _, ok := st.heap[key]; !ok {
			continue
		}
		hit := unknown
		w := e.P.ghostWriters(g)
		for _, c := range callees {
			if hit {
				break
			}
			if e.P.mayReach(c, w) {
				hit = true
			}
		}
		if hit {
			e.nfresh++
			n := sym(key + "@g" + itoa(e.nfresh))
			e.decl(n, e.keySort[key])
			st.heap[key] = n
		}
	}
}

// touchGhosts declares every ghost array at function entry so that havocs always see them.
func (e *Engine) touchGhosts(st *State) {
	for i := range e.P.specs.Ghosts {
		g := &e.P.specs.Ghosts[i]
		t := e.resolveType(g.Type, &SpecEnv{})
		if t == nil {
			t = types.Typ[types.Int]
		}
		e.heapGet(st, ghostKeyOf(g), "(Array Int "+scalarSort(t)+")")
	}
}

// applyGhostEffects executes the ghost-effect clauses of con in st (params bound in env).
func (e *Engine) applyGhostEffects(st *State, con *Contract, env *SpecEnv) {
	e.applyGhostEffectsOld(st, st, con, env)
}

// applyGhostEffectsOld: right-hand sides may use old(...) (the state before the call).
func (e *Engine) applyGhostEffectsOld(st, old *State, con *Contract, env *SpecEnv) {
	for _, cl := range con.get("ghost-effect") {
		parts := strings.SplitN(cl.Text, "=", 2)
		if len(parts) != 2 {
			e.specErr("ghost-effect needs `x.g_f = expr`")
			continue
		}
		lhs, err1 := parseSpecExpr(strings.TrimSpace(parts[0]))
		rhs, err2 := parseSpecExpr(strings.TrimSpace(parts[1]))
		if err1 != nil || err2 != nil {
			e.specErr("ghost-effect: %v %v", err1, err2)
			continue
		}
		if ix, ok := lhs.(SIndex); ok {
			id, ok2 := ix.X.(SIdent)
			var g *GhostField
			if ok2 {
				g = e.P.ghostGlobal(id.Name)
			}
			if g == nil {
				e.specErr("ghost-effect: unknown ghost global in %s", cl.Text)
				continue
			}
			idx := e.evalSpec(st, old, ix.I, env)
			v := e.coerceTo(e.evalSpec(st, old, rhs, env), types.Typ[types.Int])
			key := ghostKeyOf(g)
			arr := e.heapGet(st, key, "(Array Int (_ BitVec 64))")
			st.heap[key] = sto(arr, ghostIdx(idx), v.T)
			continue
		}
		sel, ok := lhs.(SSel)
		if !ok {
			e.specErr("ghost-effect lhs must be x.g_field or NAME[expr]")
			continue
		}
		base := e.evalSpec(st, old, sel.X, env)
		pt := e.pointee(base.Ty)
		if base.K != KPtr || pt == nil {
			e.specErr("ghost-effect base is not a pointer")
			continue
		}
		g := e.P.ghostField(pt, sel.Name)
		if g == nil {
			e.specErr("unknown ghost field %s", sel.Name)
			continue
		}
		v := e.evalSpec(st, old, rhs, env)
		t := e.resolveType(g.Type, &SpecEnv{})
		if t != nil {
			v = e.coerceTo(v, t)
		}
		key := ghostKeyOf(g)
		arr := e.heapGet(st, key, "(Array Int "+scalarSort(t)+")")
		st.heap[key] = sto(arr, base.T, v.T)
	}
}


func (P *Program) methodsNamed(name string) []*ssa.Function {
	var out []*ssa.Function
	for fn := range P.allFuncs {
		if inFalco(fn) && fn.Signature.Recv() != nil && fn.Name() == name && fn.Blocks != nil {
			out = append(out, fn)
		}
	}
	return out
}
