package main

// Contract language: parsing of //@ blocks from zz_verif_contracts.go files.

import (
	"fmt"
	"os"
	"path/filepath"
	"strconv"
	"strings"
	"unicode"
)

type SExpr interface{}

type (
	SIdent struct{ Name string }
	SLit   struct {
		Kind string // int float string char bool nil
		Val  string
	}
	SSel  struct {
		X    SExpr
		Name string
	}
	SCall struct {
		Fn   SExpr // SIdent or SSel (method / qualified)
		Args []SExpr
	}
	SIndex struct{ X, I SExpr }
	SUn    struct {
		Op string
		X  SExpr
	}
	SBin struct {
		Op   string
		L, R SExpr
	}
	SQuant struct {
		Forall bool
		Vars   []SVar
		Body   SExpr
	}
	SAssert struct { // x.(T)
		X    SExpr
		Type string
	}
	SIte  struct{ C, A, B SExpr }
	SType struct{ Name string } // a type used as an argument: is(v, *value.Integer)
	SVar  struct{ Name, Type string }
)

type Clause struct {
	Tmpl bool // came from a forall-funcs template
	Optional bool
	Kind  string // requires ensures safe assigns pure inline trusted invariant decreases loopdecreases ...
	Label string
	Props []string
	Loop  int
	Text  string
	Expr  SExpr
	Locs  []SExpr // assigns
	Args  []string
}

type Contract struct {
	FromTemplate bool
	Key     string // function key (RelString or full String for externs)
	Pkg     string // package path the file belongs to
	Extern  bool
	Lemma   bool
	Clauses []*Clause
	File    string
	Line    int
	Props   []string
}

func (c *Contract) has(kind string) bool {
	for _, cl := range c.Clauses {
		if cl.Kind == kind {
			return true
		}
	}
	return false
}

func (c *Contract) get(kind string) []*Clause {
	var out []*Clause
	for _, cl := range c.Clauses {
		if cl.Kind == kind {
			out = append(out, cl)
		}
	}
	return out
}

type Pred struct {
	Name   string
	Params []SVar
	Body   SExpr
	Rec    bool   // spec fn (recursive, becomes define-fun-rec)
	Ret    string // return type for spec fn
	Text   string
}

type GhostField struct {
	Struct string // type name as written
	Name   string
	Type   string
}

type TypeInv struct {
	Type string
	Expr SExpr
	Text string
	Pkg  string
}

type SpecFile struct {
	Templates []*Contract
	TypeInvs  []*TypeInv
	Pkg       string
	Contracts []*Contract
	Preds     map[string]*Pred
	Ghosts    []GhostField
	Imports   map[string]string
	Known     []string
}

type SpecSet struct {
	Templates []*Contract
	TypeInvs  map[string][]*TypeInv
	Files     []*SpecFile
	ByKey     map[string]*Contract // pkgpath + "::" + key ; externs under "::"+key
	Preds     map[string]*Pred
	Ghosts    []GhostField
	Imports   map[string]map[string]string
	ParseErrs []string
}

var clauseKeywords = map[string]bool{
	"func": true, "extern": true, "lemma": true, "forall-funcs": true, "no-template": true, "except": true, "pred": true, "spec": true, "ghost": true, "import": true,
	"requires": true, "ensures": true, "safe": true, "assigns": true, "pure": true, "inline": true,
	"trusted": true, "loop": true, "decreases": true, "props": true, "noinline": true, "callreq": true,
	"mustcall": true, "callassert": true, "havoc": true, "replay": true, "bounded": true, "nofork": true,
	"ghost-effect": true, "known": true, "assume-ensures": true, "opaque": true, "paths": true,
	"timeout": true, "unroll": true, "nosafe": true, "calls": true, "reads": true, "typeinv": true, "inline-calls": true, "no-visibility-frame": true, "count-calls": true, "callers": true, "rank": true, "aftercall": true, "stable": true, "only-writers": true, "extern-callers": true, "by-induction": true, "recursion-bounded": true, "terminates": true, "dispatch": true, "dynamic-ensures": true, "forget": true, "preserves": true,
}

// loadSpecs reads every zz_verif_contracts*.go under root.
func loadSpecs(root string) (*SpecSet, error) {
	ss := &SpecSet{ByKey: map[string]*Contract{}, Preds: map[string]*Pred{}, Imports: map[string]map[string]string{}, TypeInvs: map[string][]*TypeInv{}}
	var files []string
	filepath.Walk(root, func(p string, info os.FileInfo, err error) error {
		if err != nil {
			return nil
		}
		if info.IsDir() && (info.Name() == ".git" || info.Name() == "node_modules") {
			return filepath.SkipDir
		}
		if !info.IsDir() && strings.HasPrefix(info.Name(), "zz_verif_contracts") && strings.HasSuffix(info.Name(), ".go") {
			files = append(files, p)
		}
		return nil
	})
	for _, f := range files {
		rel, _ := filepath.Rel(root, filepath.Dir(f))
		pkg := "github.com/ysugimoto/falco/v2"
		if rel != "." {
			pkg += "/" + filepath.ToSlash(rel)
		}
		sf, err := parseSpecFile(f, pkg)
		if err != nil {
			return nil, err
		}
		ss.Files = append(ss.Files, sf)
		if ss.Imports[pkg] == nil {
			ss.Imports[pkg] = map[string]string{}
		}
		for k, v := range sf.Imports {
			ss.Imports[pkg][k] = v
		}
		for _, c := range sf.Contracts {
			k := pkg + "::" + c.Key
			if c.Extern {
				k = "::" + c.Key
			}
			if old, dup := ss.ByKey[k]; dup {
				// merge clauses (several files may contribute to one function)
				old.Clauses = append(old.Clauses, c.Clauses...)
				old.Props = append(old.Props, c.Props...)
				continue
			}
			ss.ByKey[k] = c
		}
		for n, p := range sf.Preds {
			ss.Preds[n] = p
		}
		ss.Ghosts = append(ss.Ghosts, sf.Ghosts...)
		ss.Templates = append(ss.Templates, sf.Templates...)
		for _, ti := range sf.TypeInvs {
			ss.TypeInvs[ti.Type] = append(ss.TypeInvs[ti.Type], ti)
		}
	}
	return ss, nil
}

func parseSpecFile(path, pkg string) (*SpecFile, error) {
	data, err := os.ReadFile(path)
	if err != nil {
		return nil, err
	}
	sf := &SpecFile{Pkg: pkg, Preds: map[string]*Pred{}, Imports: map[string]string{}}
	// gather logical lines: "//@ " lines; continuation = line whose first word is not a keyword
	type ll struct {
		text string
		line int
	}
	var lines []ll
	for i, raw := range strings.Split(string(data), "\n") {
		t := strings.TrimSpace(raw)
		if strings.HasPrefix(t, "// @") { // gofmt rewrites //@ to // @ inside doc comments
			t = "//@" + t[4:]
		}
		if !strings.HasPrefix(t, "//@") {
			continue
		}
		t = strings.TrimSpace(t[3:])
		if t == "" {
			continue
		}
		if k := strings.Index(t, " //"); k >= 0 && !strings.Contains(t[:k], "\"") { // trailing comment
			t = strings.TrimSpace(t[:k])
		}
		w := firstWord(t)
		if clauseKeywords[strings.TrimSuffix(w, "?")] || len(lines) == 0 {
			lines = append(lines, ll{t, i + 1})
		} else {
			lines[len(lines)-1].text += " " + t
		}
	}
	var cur *Contract
	for _, l := range lines {
		w := firstWord(l.text)
		rest := strings.TrimSpace(l.text[len(w):])
		fail := func(e error) error { return fmt.Errorf("%s:%d: %v (in %q)", path, l.line, e, l.text) }
		switch w {
		case "import":
			parts := strings.Fields(rest)
			if len(parts) != 2 {
				return nil, fail(fmt.Errorf("import NAME \"path\""))
			}
			sf.Imports[parts[0]] = strings.Trim(parts[1], "\"")
		case "forall-funcs":
			key, props := splitProps(rest)
			cur = &Contract{Key: key, Pkg: pkg, File: path, Line: l.line, Props: props}
			sf.Templates = append(sf.Templates, cur)
		case "func", "extern", "lemma":
			key, props := splitProps(rest)
			cur = &Contract{Key: key, Pkg: pkg, Extern: w == "extern", Lemma: w == "lemma", File: path, Line: l.line, Props: props}
			sf.Contracts = append(sf.Contracts, cur)
		case "typeinv":
			// typeinv pkg.Type expr      (self denotes a non-nil *Type allocated before entry)
			parts := strings.SplitN(rest, " ", 2)
			if len(parts) != 2 {
				return nil, fail(fmt.Errorf("typeinv TYPE expr"))
			}
			e, err := parseSpecExpr(parts[1])
			if err != nil {
				return nil, fail(err)
			}
			sf.TypeInvs = append(sf.TypeInvs, &TypeInv{Type: parts[0], Expr: e, Text: parts[1], Pkg: pkg})
		case "pred", "spec":
			p, err := parsePred(rest, w == "spec")
			if err != nil {
				return nil, fail(err)
			}
			sf.Preds[p.Name] = p
		case "ghost":
			// ghost field T.name type
			parts := strings.Fields(rest)
			if len(parts) == 2 && parts[0] == "global" {
				// ghost global NAME: a map from values (string ids, addresses) to integers
				sf.Ghosts = append(sf.Ghosts, GhostField{Struct: "", Name: parts[1], Type: "int"})
			} else if len(parts) == 3 && parts[0] == "field" {
				dot := strings.LastIndex(parts[1], ".")
				sf.Ghosts = append(sf.Ghosts, GhostField{Struct: parts[1][:dot], Name: parts[1][dot+1:], Type: parts[2]})
			} else {
				return nil, fail(fmt.Errorf("ghost field T.name type"))
			}
		default:
			if cur == nil {
				return nil, fail(fmt.Errorf("clause outside of a func block"))
			}
			cl := &Clause{Kind: w}
			if strings.HasSuffix(w, "?") { // optional clause (templates): skipped where its names do not resolve
				cl.Kind = strings.TrimSuffix(w, "?")
				cl.Optional = true
				w = cl.Kind
			}
			// optional [label C07 C08]
			if strings.HasPrefix(rest, "[") {
				end := strings.Index(rest, "]")
				for _, f := range strings.Fields(rest[1:end]) {
					if len(f) >= 3 && f[0] == 'C' && unicode.IsDigit(rune(f[1])) {
						cl.Props = append(cl.Props, f)
					} else {
						cl.Label = f
					}
				}
				rest = strings.TrimSpace(rest[end+1:])
			}
			if len(cl.Props) == 0 {
				cl.Props = cur.Props
			}
			cl.Text = rest
			switch w {
			case "requires", "ensures", "decreases", "callreq", "assume-ensures":
				e, err := parseSpecExpr(rest)
				if err != nil {
					return nil, fail(err)
				}
				cl.Expr = e
			case "loop":
				// loop N invariant e | loop N decreases e | loop N assigns ...
				parts := strings.SplitN(rest, " ", 3)
				if len(parts) < 3 {
					return nil, fail(fmt.Errorf("loop N (invariant|decreases) expr"))
				}
				n := -1 // "*": every loop of the function
				if parts[0] != "*" {
					var err error
					n, err = strconv.Atoi(parts[0])
					if err != nil {
						return nil, fail(err)
					}
				}
				cl.Loop = n
				if strings.HasSuffix(parts[1], "?") {
					parts[1] = strings.TrimSuffix(parts[1], "?")
					cl.Optional = true
				}
				cl.Kind = "loop-" + parts[1]
				cl.Text = parts[2]
				if parts[1] == "assigns" {
					for _, part := range splitTop(parts[2], ',') {
						e, err := parseSpecExpr(part)
						if err != nil {
							return nil, fail(err)
						}
						cl.Locs = append(cl.Locs, e)
					}
				} else {
					e, err := parseSpecExpr(parts[2])
					if err != nil {
						return nil, fail(err)
					}
					cl.Expr = e
				}
			case "assigns", "reads":
				if rest != "" && rest != "nothing" {
					for _, part := range splitTop(rest, ',') {
						e, err := parseSpecExpr(part)
						if err != nil {
							return nil, fail(err)
						}
						cl.Locs = append(cl.Locs, e)
					}
				}
			case "callassert", "mustcall", "aftercall":
				// callassert CALLEE: expr      mustcall CALLEE when expr
				sep := ":"
				if w == "mustcall" {
					sep = " when "
				}
				k := strings.Index(rest, sep)
				if k < 0 {
					return nil, fail(fmt.Errorf("%s CALLEE%sexpr", w, sep))
				}
				cl.Args = []string{strings.TrimSpace(rest[:k])}
				e, err := parseSpecExpr(rest[k+len(sep):])
				if err != nil {
					return nil, fail(err)
				}
				cl.Expr = e
				cl.Text = rest
			case "known":
				sf.Known = append(sf.Known, rest)
			default:
				cl.Args = strings.Fields(rest)
			}
			cur.Clauses = append(cur.Clauses, cl)
		}
	}
	return sf, nil
}

func firstWord(s string) string {
	for i, c := range s {
		if c == ' ' || c == '\t' || c == '[' {
			return s[:i]
		}
	}
	return s
}

func splitProps(s string) (string, []string) {
	// "Division [C07 C08]" -> key, props
	if k := strings.LastIndex(s, "["); k >= 0 && strings.HasSuffix(strings.TrimSpace(s), "]") {
		inner := strings.TrimSpace(s)[k+1:]
		inner = inner[:len(inner)-1]
		ok := true
		for _, f := range strings.Fields(inner) {
			if !(len(f) >= 3 && f[0] == 'C' && unicode.IsDigit(rune(f[1]))) {
				ok = false
			}
		}
		if ok {
			return strings.TrimSpace(s[:k]), strings.Fields(inner)
		}
	}
	return strings.TrimSpace(s), nil
}

func splitTop(s string, sep byte) []string {
	var out []string
	d := 0
	last := 0
	inStr := false
	for i := 0; i < len(s); i++ {
		c := s[i]
		if c == '"' {
			inStr = !inStr
		}
		if inStr {
			continue
		}
		switch c {
		case '(', '[':
			d++
		case ')', ']':
			d--
		default:
			if c == sep && d == 0 {
				out = append(out, strings.TrimSpace(s[last:i]))
				last = i + 1
			}
		}
	}
	out = append(out, strings.TrimSpace(s[last:]))
	return out
}

func parsePred(s string, rec bool) (*Pred, error) {
	// pred name(a T, b U) = expr          spec fn name(a T) R = expr
	if rec {
		s = strings.TrimSpace(strings.TrimPrefix(s, "fn"))
	}
	op := strings.Index(s, "(")
	eqi := -1
	d := 0
	for i := 0; i < len(s); i++ {
		if s[i] == '(' {
			d++
		} else if s[i] == ')' {
			d--
		} else if s[i] == '=' && d == 0 && i+1 < len(s) && s[i+1] != '=' && (i == 0 || (s[i-1] != '=' && s[i-1] != '!' && s[i-1] != '<' && s[i-1] != '>')) {
			eqi = i
			break
		}
	}
	if op < 0 || eqi < 0 {
		return nil, fmt.Errorf("pred NAME(params) = expr")
	}
	cp := strings.LastIndex(s[:eqi], ")")
	p := &Pred{Name: strings.TrimSpace(s[:op]), Rec: rec, Text: s}
	for _, part := range splitTop(s[op+1:cp], ',') {
		if part == "" {
			continue
		}
		fs := strings.Fields(part)
		v := SVar{Name: fs[0]}
		if len(fs) > 1 {
			v.Type = strings.Join(fs[1:], " ")
		}
		p.Params = append(p.Params, v)
	}
	p.Ret = strings.TrimSpace(s[cp+1 : eqi])
	e, err := parseSpecExpr(s[eqi+1:])
	if err != nil {
		return nil, err
	}
	p.Body = e
	return p, nil
}

// ---- expression parser ---------------------------------------------------------------------

type tok struct {
	k string // id num str chr op eof
	s string
}

func lexSpec(s string) ([]tok, error) {
	var out []tok
	i := 0
	for i < len(s) {
		c := s[i]
		switch {
		case c == ' ' || c == '\t':
			i++
		case unicode.IsLetter(rune(c)) || c == '_' || c == '$':
			j := i
			for j < len(s) && (unicode.IsLetter(rune(s[j])) || unicode.IsDigit(rune(s[j])) || s[j] == '_' || s[j] == '$') {
				j++
			}
			out = append(out, tok{"id", s[i:j]})
			i = j
		case unicode.IsDigit(rune(c)):
			j := i
			for j < len(s) && (unicode.IsLetter(rune(s[j])) || unicode.IsDigit(rune(s[j])) || s[j] == '.' || s[j] == '_') {
				if s[j] == '.' && j+1 < len(s) && !unicode.IsDigit(rune(s[j+1])) {
					break
				}
				j++
			}
			out = append(out, tok{"num", s[i:j]})
			i = j
		case c == '"':
			j := i + 1
			for j < len(s) && s[j] != '"' {
				if s[j] == '\\' {
					j++
				}
				j++
			}
			if j >= len(s) {
				return nil, fmt.Errorf("unterminated string")
			}
			u, err := strconv.Unquote(s[i : j+1])
			if err != nil {
				return nil, err
			}
			out = append(out, tok{"str", u})
			i = j + 1
		case c == '\'':
			j := i + 1
			for j < len(s) && s[j] != '\'' {
				if s[j] == '\\' {
					j++
				}
				j++
			}
			r, _, _, err := strconv.UnquoteChar(s[i+1:j], '\'')
			if err != nil {
				return nil, err
			}
			out = append(out, tok{"chr", fmt.Sprint(int(r))})
			i = j + 1
		default:
			ops := []string{"<==>", "==>", "::", "==", "!=", "<=", ">=", "&&", "||", "<<", ">>", "&^"}
			matched := false
			for _, o := range ops {
				if strings.HasPrefix(s[i:], o) {
					out = append(out, tok{"op", o})
					i += len(o)
					matched = true
					break
				}
			}
			if !matched {
				out = append(out, tok{"op", string(c)})
				i++
			}
		}
	}
	out = append(out, tok{"eof", ""})
	return out, nil
}

type sparser struct {
	toks []tok
	pos  int
}

func parseSpecExpr(s string) (SExpr, error) {
	toks, err := lexSpec(s)
	if err != nil {
		return nil, err
	}
	p := &sparser{toks: toks}
	var e SExpr
	func() {
		defer func() {
			if r := recover(); r != nil {
				err = fmt.Errorf("spec parse: %v", r)
			}
		}()
		e = p.iff()
		if p.peek().k != "eof" {
			panic(fmt.Sprintf("unexpected %q", p.peek().s))
		}
	}()
	return e, err
}

func (p *sparser) peek() tok { return p.toks[p.pos] }
func (p *sparser) next() tok { t := p.toks[p.pos]; p.pos++; return t }
func (p *sparser) isOp(s string) bool {
	t := p.peek()
	return t.k == "op" && t.s == s
}
func (p *sparser) expect(s string) {
	if !p.isOp(s) {
		panic(fmt.Sprintf("expected %q, got %q", s, p.peek().s))
	}
	p.pos++
}

func (p *sparser) iff() SExpr {
	l := p.impl()
	for p.isOp("<==>") {
		p.next()
		r := p.impl()
		l = SBin{"<==>", l, r}
	}
	return l
}

func (p *sparser) impl() SExpr {
	l := p.cond()
	if p.isOp("==>") {
		p.next()
		r := p.impl()
		return SBin{"==>", l, r}
	}
	return l
}

func (p *sparser) cond() SExpr {
	c := p.bin(0)
	if p.isOp("?") {
		p.next()
		a := p.cond()
		p.expect(":")
		b := p.cond()
		return SIte{c, a, b}
	}
	return c
}

var binPrec = []map[string]bool{
	{"||": true},
	{"&&": true},
	{"==": true, "!=": true, "<": true, "<=": true, ">": true, ">=": true},
	{"+": true, "-": true, "|": true, "^": true},
	{"*": true, "/": true, "%": true, "<<": true, ">>": true, "&": true, "&^": true},
}

func (p *sparser) bin(level int) SExpr {
	if level >= len(binPrec) {
		return p.unary()
	}
	l := p.bin(level + 1)
	for {
		t := p.peek()
		if t.k == "op" && binPrec[level][t.s] {
			p.next()
			r := p.bin(level + 1)
			l = SBin{t.s, l, r}
			continue
		}
		return l
	}
}

func (p *sparser) unary() SExpr {
	t := p.peek()
	if t.k == "op" && (t.s == "!" || t.s == "-" || t.s == "^") {
		p.next()
		return SUn{t.s, p.unary()}
	}
	if t.k == "id" && (t.s == "forall" || t.s == "exists") {
		p.next()
		q := SQuant{Forall: t.s == "forall"}
		for {
			name := p.next().s
			ty := p.typeText()
			q.Vars = append(q.Vars, SVar{name, ty})
			if p.isOp(",") {
				p.next()
				continue
			}
			break
		}
		p.expect("::")
		q.Body = p.iff()
		return q
	}
	return p.postfix(p.primary())
}

// typeText parses a type: [*|[]]* ident(.ident)*
func (p *sparser) typeText() string {
	s := ""
	for {
		if p.isOp("*") {
			p.next()
			s += "*"
		} else if p.isOp("[") {
			p.next()
			p.expect("]")
			s += "[]"
		} else {
			break
		}
	}
	t := p.next()
	if t.k != "id" {
		panic(fmt.Sprintf("type expected, got %q", t.s))
	}
	s += t.s
	for p.isOp(".") {
		p.next()
		s += "." + p.next().s
	}
	return s
}

func (p *sparser) primary() SExpr {
	t := p.next()
	switch t.k {
	case "num":
		if strings.ContainsAny(t.s, ".") && !strings.HasPrefix(t.s, "0x") {
			return SLit{"float", t.s}
		}
		return SLit{"int", strings.ReplaceAll(t.s, "_", "")}
	case "str":
		return SLit{"string", t.s}
	case "chr":
		return SLit{"char", t.s}
	case "id":
		switch t.s {
		case "true", "false":
			return SLit{"bool", t.s}
		case "nil":
			return SLit{"nil", ""}
		}
		return SIdent{t.s}
	case "op":
		if t.s == "(" {
			e := p.iff()
			p.expect(")")
			return e
		}
		if t.s == "*" || t.s == "[" { // a type used as an argument
			p.pos--
			return SType{p.typeText()}
		}
	}
	panic(fmt.Sprintf("unexpected token %q", t.s))
}

func (p *sparser) postfix(e SExpr) SExpr {
	for {
		switch {
		case p.isOp("."):
			p.next()
			if p.isOp("(") { // type assertion
				p.next()
				ty := p.typeText()
				p.expect(")")
				e = SAssert{e, ty}
				continue
			}
			e = SSel{e, p.next().s}
		case p.isOp("("):
			p.next()
			var args []SExpr
			for !p.isOp(")") {
				args = append(args, p.iff())
				if p.isOp(",") {
					p.next()
				}
			}
			p.expect(")")
			e = SCall{e, args}
		case p.isOp("["):
			p.next()
			i := p.iff()
			p.expect("]")
			e = SIndex{e, i}
		default:
			return e
		}
	}
}

func specString(e SExpr) string {
	switch x := e.(type) {
	case SIdent:
		return x.Name
	case SLit:
		if x.Kind == "string" {
			return strconv.Quote(x.Val)
		}
		if x.Kind == "nil" {
			return "nil"
		}
		return x.Val
	case SSel:
		return specString(x.X) + "." + x.Name
	case SCall:
		var as []string
		for _, a := range x.Args {
			as = append(as, specString(a))
		}
		return specString(x.Fn) + "(" + strings.Join(as, ", ") + ")"
	case SIndex:
		return specString(x.X) + "[" + specString(x.I) + "]"
	case SUn:
		return x.Op + specString(x.X)
	case SBin:
		return "(" + specString(x.L) + " " + x.Op + " " + specString(x.R) + ")"
	case SQuant:
		q := "exists"
		if x.Forall {
			q = "forall"
		}
		var vs []string
		for _, v := range x.Vars {
			vs = append(vs, v.Name+" "+v.Type)
		}
		return q + " " + strings.Join(vs, ", ") + " :: " + specString(x.Body)
	case SAssert:
		return specString(x.X) + ".(" + x.Type + ")"
	case SIte:
		return "(" + specString(x.C) + " ? " + specString(x.A) + " : " + specString(x.B) + ")"
	case SType:
		return x.Name
	}
	return "?"
}

// preserved: the heap-key fragments named by `preserves` clauses.
func (c *Contract) preserved() []string {
	var out []string
	for _, cl := range c.get("preserves") {
		out = append(out, cl.Args...)
	}
	return out
}

// usesAtLoop: some clause mentions atloop(N, e) (the value of e when loop N's current iteration began).
func (c *Contract) usesAtLoop() bool {
	for _, cl := range c.Clauses {
		if strings.Contains(cl.Text, "atloop(") {
			return true
		}
	}
	return false
}

// usesCalled: some clause mentions called("F").
func (c *Contract) usesCalled() bool {
	for _, cl := range c.Clauses {
		if strings.Contains(cl.Text, "called(") {
			return true
		}
	}
	return false
}
