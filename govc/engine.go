package main

// Symbolic execution engine: states, heap, obligations, the stepping loop, loops cut at headers.

import (
	"os/exec"
	"io"
	"bufio"
	"context"
	"fmt"
	"go/token"
	"go/types"
	"os"
	"sort"
	"strings"
	"time"

	"golang.org/x/tools/go/ssa"
)

type Obl struct {
	Name    string
	Kind    string // K1 K2 K3 K4 K5 K6
	Props   []string
	Fn      string
	Text    string // clause text / site text
	Cases   []OblCase
	Status  string // unsat sat unknown timeout trivial
	Backend string
	Secs    float64
	Model   string
	Except  string // known-finding exclusion
}

type OblCase struct {
	PC    []string
	Goal  string
	Where string
}

type Frame struct {
	fn      *ssa.Function
	block   *ssa.BasicBlock
	prev    *ssa.BasicBlock
	idx     int
	regs    map[ssa.Value]Val
	cells   map[*ssa.Alloc]int // alloc -> cell id (state.cells)
	env     []Val              // free variable bindings
	defers  []deferred
	call    ssa.Value // register in the caller frame receiving the result (nil for root / defers)
	variant map[*ssa.BasicBlock]Val
	dummy    bool
	loopRef  map[*ssa.BasicBlock]*State // state at the loop head (for loop frames)
	unrolled map[*ssa.BasicBlock]int // remaining header visits of an executed (not cut) range loop
	inlTag  string
}

type deferred struct {
	callee *ssa.Function
	args   []Val
	common *ssa.CallCommon
	env    []Val
	fnval  Val
	pos    token.Pos
}

type allocCtr struct {
	base string
	off  int64
}

func (a allocCtr) term() string { return addInt(a.base, a.off) }

type State struct {
	frames  []*Frame
	heap    map[string]string
	cells   map[int]Val
	ncell   *int
	pc      []string
	facts   map[string]bool
	A       allocCtr
	owned   []ownedObj
	flags   map[string]string // ghost call flags (mustcall)
	results []Val             // root results at finish
	imprecise []string
	epoch   int
	pending []pendingHavoc
	alias   map[string]string
	conds   map[int]bool // indices of pc entries that are branch conditions (from If)
}

type ownedObj struct {
	ref string
	ty  types.Type
}

func (s *State) top() *Frame { return s.frames[len(s.frames)-1] }

func (s *State) clone() *State {
	n := &State{heap: make(map[string]string, len(s.heap)), cells: make(map[int]Val, len(s.cells)), ncell: s.ncell,
		facts: make(map[string]bool, len(s.facts)), A: s.A, flags: make(map[string]string, len(s.flags)), epoch: s.epoch}
	for k, v := range s.heap {
		n.heap[k] = v
	}
	for k, v := range s.cells {
		n.cells[k] = v
	}
	for k, v := range s.facts {
		n.facts[k] = v
	}
	for k, v := range s.flags {
		n.flags[k] = v
	}
	n.pc = append(make([]string, 0, len(s.pc)+8), s.pc...)
	n.owned = append([]ownedObj{}, s.owned...)
	n.imprecise = s.imprecise
	n.pending = append([]pendingHavoc{}, s.pending...)
	if s.conds != nil {
		n.conds = make(map[int]bool, len(s.conds))
		for k, v := range s.conds {
			n.conds[k] = v
		}
	}
	if s.alias != nil {
		n.alias = make(map[string]string, len(s.alias))
		for k, v := range s.alias {
			n.alias[k] = v
		}
	}
	for _, f := range s.frames {
		nf := *f
		nf.regs = make(map[ssa.Value]Val, len(f.regs))
		for k, v := range f.regs {
			nf.regs[k] = v
		}
		nf.cells = make(map[*ssa.Alloc]int, len(f.cells))
		for k, v := range f.cells {
			nf.cells[k] = v
		}
		nf.defers = append([]deferred{}, f.defers...)
		if f.variant != nil {
			nf.variant = map[*ssa.BasicBlock]Val{}
			for k, v := range f.variant {
				nf.variant[k] = v
			}
		}
		if f.loopRef != nil {
			nf.loopRef = map[*ssa.BasicBlock]*State{}
			for k, v := range f.loopRef {
				nf.loopRef[k] = v
			}
		}
		if f.unrolled != nil {
			nf.unrolled = map[*ssa.BasicBlock]int{}
			for k, v := range f.unrolled {
				nf.unrolled[k] = v
			}
		}
		n.frames = append(n.frames, &nf)
	}
	return n
}

func (s *State) assume(t string) {
	if t == "true" || t == "" {
		return
	}
	if s.facts[t] {
		return
	}
	s.facts[t] = true
	s.pc = append(s.pc, t)
	// (= sym term): remember the definition so that later tests of sym can be decided syntactically
	if strings.HasPrefix(t, "(= |") {
		if parts := sexpParts(t); len(parts) == 3 && strings.HasPrefix(parts[1], "|") && strings.HasSuffix(parts[1], "|") {
			if s.alias == nil {
				s.alias = map[string]string{}
			}
			if _, dup := s.alias[parts[1]]; !dup {
				s.alias[parts[1]] = parts[2]
			}
		}
	}
}

// assumeCond: a branch condition (distinguished from facts when paths are merged).
func (s *State) assumeCond(t string) {
	n := len(s.pc)
	s.assume(t)
	if len(s.pc) > n {
		if s.conds == nil {
			s.conds = map[int]bool{}
		}
		s.conds[n] = true
	}
}

// split returns the branch conditions and the other assumptions made since pc index from.
func (s *State) split(from int) (conds, facts []string) {
	for i := from; i < len(s.pc); i++ {
		if s.conds[i] {
			conds = append(conds, s.pc[i])
		} else {
			facts = append(facts, s.pc[i])
		}
	}
	return
}

// knownTrue/False: purely syntactic
func (s *State) known(t string) (val bool, ok bool) {
	if t == "true" {
		return true, true
	}
	if t == "false" {
		return false, true
	}
	if s.facts[t] {
		return true, true
	}
	if s.facts[not(t)] {
		return false, true
	}
	if a, ok := s.alias[t]; ok {
		return s.known(a)
	}
	if strings.HasPrefix(t, "(not ") {
		if v, ok := s.known(t[5 : len(t)-1]); ok {
			return !v, true
		}
	}
	return false, false
}

type Engine struct {
	P        *Program
	fn       *ssa.Function
	con      *Contract
	decls    []string
	declSet  map[string]bool
	nfresh   int
	obls     map[string]*Obl
	oblOrder []string
	paths    int
	steps    int
	maxPaths int
	aborted  string
	notes    []string
	entry    *State
	wantSafe bool
	props    []string
	siteOrd  map[string]int
	inlineStack []*ssa.Function
	usedExterns map[string]bool
	usedContracts map[string]bool
	havocCalls map[string]int
	lenFacts map[string]bool
	axioms   []string
	paramVals map[string]Val
	debug    bool
	keySort  map[string]string
	specErrors []string
	modelTerms []modelTerm
	secs     float64
	sitePos  map[string]string
	softs    []string
	feas      *feasProc
	inSummary int
	rootFree  map[string]Val // captured variables of the closure under verification
	inductive string // contract discharged by call-graph induction (text of the clause)
	nprune   int
	debugForks map[string]int
	ncover   int
	covers   map[string][][]string
	stableMode bool
	poolCall *ssa.Function
	heapIDs  map[string]int
	visibilityFrames map[string]bool
	uncheckedAssumes map[string]bool
	noAssume bool // obligations at the end of a path must not mask each other
	noTypeInv bool
	usedTypeInvs map[string]bool
}

func newEngine(P *Program, fn *ssa.Function, con *Contract) *Engine {
	return &Engine{P: P, fn: fn, con: con, declSet: map[string]bool{}, obls: map[string]*Obl{}, maxPaths: 4000,
		siteOrd: map[string]int{}, usedExterns: map[string]bool{}, usedContracts: map[string]bool{}, havocCalls: map[string]int{},
		lenFacts: map[string]bool{}, debug: os.Getenv("GOVC_DEBUG") != "", debugForks: forkMap(), keySort: map[string]string{}, paramVals: map[string]Val{}, usedTypeInvs: map[string]bool{}, visibilityFrames: map[string]bool{}, uncheckedAssumes: map[string]bool{}}
}

func (e *Engine) decl(name, srt string) {
	if !e.declSet[name] {
		e.declSet[name] = true
		e.decls = append(e.decls, fmt.Sprintf("(declare-const %s %s)", name, srt))
	}
}

func (e *Engine) declFun(name, sig string) {
	if !e.declSet[name] {
		e.declSet[name] = true
		e.decls = append(e.decls, fmt.Sprintf("(declare-fun %s %s)", name, sig))
	}
}

func (e *Engine) fresh(prefix, srt string) string {
	e.nfresh++
	n := sym(fmt.Sprintf("%s!%d", prefix, e.nfresh))
	e.decl(n, srt)
	return n
}

// freshVal creates an unconstrained value of type t; typed invariants are assumed on st.
func (e *Engine) freshVal(st *State, prefix string, t types.Type) Val {
	switch kindOf(t) {
	case KStruct:
		s, _ := isStruct(t)
		v := Val{K: KStruct, Ty: t}
		for i := 0; i < s.NumFields(); i++ {
			v.F = append(v.F, e.freshVal(st, prefix+"."+s.Field(i).Name(), s.Field(i).Type()))
		}
		return v
	case KTuple:
		tup := t.(*types.Tuple)
		v := Val{K: KTuple, Ty: t}
		for i := 0; i < tup.Len(); i++ {
			v.F = append(v.F, e.freshVal(st, fmt.Sprintf("%s.%d", prefix, i), tup.At(i).Type()))
		}
		return v
	case KIface:
		v := Val{K: KIface, Ty: t, T: e.fresh(prefix, "Int"), X: []string{e.fresh(prefix+".tag", "Int")}}
		e.typeInv(st, v)
		return v
	case KSlice:
		v := Val{K: KSlice, Ty: t, T: e.fresh(prefix, "Int"), X: []string{e.fresh(prefix+".off", bvSort(64)), e.fresh(prefix+".len", bvSort(64)), e.fresh(prefix+".cap", bvSort(64))}}
		e.typeInv(st, v)
		return v
	}
	v := Val{K: kindOf(t), Ty: t, T: e.fresh(prefix, scalarSort(t))}
	e.typeInv(st, v)
	return v
}

// typeInv assumes the invariants every Go value of that type satisfies.
func (e *Engine) typeInv(st *State, v Val) {
	if st == nil {
		return
	}
	e.notOwned(st, v)
	switch v.K {
	case KPtr:
		sz := int64(1)
		if p, ok := v.Ty.Underlying().(*types.Pointer); ok {
			sz = sizeOf(p.Elem())
		}
		st.assume(fmt.Sprintf("(and (>= %s 0) (<= %s %s))", v.T, addInt(v.T, sz), st.A.term()))
	case KIface:
		st.assume(fmt.Sprintf("(and (>= %s 0) (< %s %s) (>= %s 0))", v.T, v.T, st.A.term(), v.X[0]))
		st.assume(implies(eq(v.X[0], "0"), eq(v.T, "0")))
	case KSlice:
		z := bvLit(0, 64)
		st.assume(fmt.Sprintf("(and (>= %s 0) (< %s %s) (bvsle %s %s) (bvsle %s %s) (bvsle %s %s) (bvsle %s #x0001000000000000) (bvsle %s #x0001000000000000))",
			v.T, v.T, st.A.term(), z, v.X[0], z, v.X[1], v.X[1], v.X[2], v.X[0], v.X[2]))
		st.assume(implies(eq(v.T, "0"), eq(v.X[2], z)))
	case KMap:
		st.assume(fmt.Sprintf("(and (>= %s 0) (< %s %s))", v.T, v.T, st.A.term()))
	case KStruct, KTuple:
		for _, f := range v.F {
			e.typeInv(st, f)
		}
	case KStr:
		// nothing
	}
}

// notOwned: a reference that was read from memory or returned by a call cannot point into an object
// that this function allocated and has not let escape (nobody else has its address).
func (e *Engine) notOwned(st *State, v Val) {
	switch v.K {
	case KPtr, KIface, KSlice, KMap:
	default:
		return
	}
	if os.Getenv("GOVC_DBGOWN") != "" {
		fmt.Fprintln(os.Stderr, "notOwned", v.T, len(st.owned))
	}
	if len(st.owned) == 0 || len(st.owned) > 12 || v.T == "0" {
		return
	}
	for _, o := range st.owned {
		if strings.Contains(v.T, o.ref) {
			return
		}
	}
	for _, o := range st.owned {
		sz := sizeOf(o.ty)
		if sz < 1 {
			sz = 1
		}
		st.assume(fmt.Sprintf("(or (< %s %s) (>= %s %s))", v.T, o.ref, v.T, addInt(o.ref, sz)))
	}
}

func (e *Engine) zeroVal(t types.Type) Val {
	switch kindOf(t) {
	case KBool:
		return Val{K: KBool, Ty: t, T: "false"}
	case KInt:
		w, _ := intInfo(t)
		return Val{K: KInt, Ty: t, T: bvLit(0, w)}
	case KFloat:
		return Val{K: KFloat, Ty: t, T: "(_ +zero 11 53)"}
	case KStr:
		return Val{K: KStr, Ty: t, T: e.P.reg.strID("")}
	case KIface:
		return Val{K: KIface, Ty: t, T: "0", X: []string{"0"}}
	case KSlice:
		z := bvLit(0, 64)
		return Val{K: KSlice, Ty: t, T: "0", X: []string{z, z, z}}
	case KStruct:
		s, _ := isStruct(t)
		v := Val{K: KStruct, Ty: t}
		for i := 0; i < s.NumFields(); i++ {
			v.F = append(v.F, e.zeroVal(s.Field(i).Type()))
		}
		return v
	case KTuple:
		tup := t.(*types.Tuple)
		v := Val{K: KTuple, Ty: t}
		for i := 0; i < tup.Len(); i++ {
			v.F = append(v.F, e.zeroVal(tup.At(i).Type()))
		}
		return v
	}
	return Val{K: kindOf(t), Ty: t, T: "0"}
}

// ---- heap -----------------------------------------------------------------------------------

// array keys:  "F:<owner>.<field>:<leafidx>"   struct field leaf, Int -> sort
//              "E:<elemtype>:<leafidx>"        slice element leaf, Int -> (Array BV64 sort)
//              "C:<type>:<leafidx>"            scalar heap cell leaf, Int -> sort
//              "MD:<k>:<v>" / "MV:<k>:<v>:<leafidx>"   map dom / val, Int -> (Array ksort ...)
//              "G:<global>:<leafidx>"          global variable leaf (not an array)

func (e *Engine) heapGet(st *State, key, srt string) string {
	if t, ok := st.heap[key]; ok {
		return t
	}
	e.keySort[key] = srt
	ep := st.epoch
	if strings.HasPrefix(key, "G:") && e.P.immutableGlobal(key) {
		n := sym(key + "@0")
		e.decl(n, srt)
		st.heap[key] = n
		return n
	}
	// a partial havoc that happened before this array was first touched applies to it as well
	for _, ph := range st.pending {
		if ph.epoch <= ep {
			continue
		}
		if ph.eff.hits(key) && !(strings.HasPrefix(key, "G:") && e.P.immutableGlobal(key)) {
			ep = ph.epoch
		}
	}
	n := sym(fmt.Sprintf("%s@%d", key, ep))
	e.decl(n, srt)
	st.heap[key] = n
	return n
}

func (e *Engine) fieldKey(owner types.Type, f *types.Var, leaf int) string {
	return fmt.Sprintf("F:%s.%s:%d", typeName(owner), f.Name(), leaf)
}

// loadField loads field #i of the struct (type owner) at address addr.
func (e *Engine) loadField(st *State, owner types.Type, addr string, i int) Val {
	s, _ := isStruct(owner)
	f := s.Field(i)
	ft := f.Type()
	if _, ok := isStruct(ft); ok {
		return e.loadStruct(st, ft, addInt(addr, e.offsetOf(s, i)))
	}
	ls := leaves(ft)
	terms := make([]string, len(ls))
	for k, l := range ls {
		arr := e.heapGet(st, e.fieldKey(owner, f, k), "(Array Int "+l.Sort+")")
		terms[k] = sel(arr, addr)
	}
	v, _ := fromComps(ft, terms)
	e.typeInv(st, v)
	return v
}

func (e *Engine) offsetOf(s *types.Struct, i int) int64 {
	var fs []*types.Var
	for k := 0; k < s.NumFields(); k++ {
		fs = append(fs, s.Field(k))
	}
	defer func() { recover() }()
	return sizes.Offsetsof(fs)[i]
}

func (e *Engine) loadStruct(st *State, t types.Type, addr string) Val {
	s, _ := isStruct(t)
	v := Val{K: KStruct, Ty: t}
	for i := 0; i < s.NumFields(); i++ {
		v.F = append(v.F, e.loadField(st, t, addr, i))
	}
	return v
}

func (e *Engine) storeField(st *State, owner types.Type, addr string, i int, v Val) {
	s, _ := isStruct(owner)
	f := s.Field(i)
	ft := f.Type()
	if _, ok := isStruct(ft); ok {
		e.storeStruct(st, ft, addInt(addr, e.offsetOf(s, i)), v)
		return
	}
	ls := leaves(ft)
	cs := v.comps()
	if len(cs) != len(ls) {
		// representation mismatch (e.g. structured address stored): havoc the leaves
		cs = make([]string, len(ls))
		for k, l := range ls {
			cs[k] = e.fresh("lost", l.Sort)
		}
		st.imprecise = append(st.imprecise, "store of non-first-class value into "+f.Name())
	}
	for k, l := range ls {
		key := e.fieldKey(owner, f, k)
		arr := e.heapGet(st, key, "(Array Int "+l.Sort+")")
		st.heap[key] = sto(arr, addr, cs[k])
	}
}

func (e *Engine) storeStruct(st *State, t types.Type, addr string, v Val) {
	s, _ := isStruct(t)
	if v.K != KStruct || len(v.F) != s.NumFields() {
		v = e.freshVal(st, "lost", t)
	}
	for i := 0; i < s.NumFields(); i++ {
		e.storeField(st, t, addr, i, v.F[i])
	}
}

func (e *Engine) elemKey(et types.Type, leaf int) string {
	return fmt.Sprintf("E:%s:%d", typeName(et), leaf)
}

func (e *Engine) loadElem(st *State, et types.Type, base, idx string) Val {
	ls := leaves(et)
	terms := make([]string, len(ls))
	for k, l := range ls {
		arr := e.heapGet(st, e.elemKey(et, k), "(Array Int (Array (_ BitVec 64) "+l.Sort+"))")
		terms[k] = sel(sel(arr, base), idx)
	}
	v, _ := fromComps(et, terms)
	e.typeInv(st, v)
	return v
}

func (e *Engine) storeElem(st *State, et types.Type, base, idx string, v Val) {
	ls := leaves(et)
	cs := v.comps()
	if len(cs) != len(ls) {
		cs = make([]string, len(ls))
		for k, l := range ls {
			cs[k] = e.fresh("lost", l.Sort)
		}
	}
	for k, l := range ls {
		key := e.elemKey(et, k)
		arr := e.heapGet(st, key, "(Array Int (Array (_ BitVec 64) "+l.Sort+"))")
		st.heap[key] = sto(arr, base, sto(sel(arr, base), idx, cs[k]))
	}
}

func (e *Engine) cellKey(t types.Type, leaf int) string {
	return fmt.Sprintf("C:%s:%d", typeName(t), leaf)
}

func (e *Engine) loadHeapCell(st *State, t types.Type, addr string) Val {
	if _, ok := isStruct(t); ok {
		return e.loadStruct(st, t, addr)
	}
	ls := leaves(t)
	terms := make([]string, len(ls))
	for k, l := range ls {
		arr := e.heapGet(st, e.cellKey(t, k), "(Array Int "+l.Sort+")")
		terms[k] = sel(arr, addr)
	}
	v, _ := fromComps(t, terms)
	e.typeInv(st, v)
	return v
}

func (e *Engine) storeHeapCell(st *State, t types.Type, addr string, v Val) {
	if _, ok := isStruct(t); ok {
		e.storeStruct(st, t, addr, v)
		return
	}
	ls := leaves(t)
	cs := v.comps()
	if len(cs) != len(ls) {
		cs = make([]string, len(ls))
		for k, l := range ls {
			cs[k] = e.fresh("lost", l.Sort)
		}
	}
	for k, l := range ls {
		key := e.cellKey(t, k)
		arr := e.heapGet(st, key, "(Array Int "+l.Sort+")")
		st.heap[key] = sto(arr, addr, cs[k])
	}
}

func (e *Engine) mapKeys(mt *types.Map) (dom string, val string, ksort string) {
	k := typeName(mt.Key())
	v := typeName(mt.Elem())
	ks := "Int"
	switch kindOf(mt.Key()) {
	case KInt, KBool, KFloat:
		ks = scalarSort(mt.Key())
	}
	return "MD:" + k + ":" + v, "MV:" + k + ":" + v, ks
}

func (e *Engine) mapKeyTerm(mt *types.Map, k Val) string {
	switch k.K {
	case KIface: // interface-keyed maps: use payload (imprecise across tags; rare)
		return k.T
	case KStruct:
		return e.fresh("structkey", "Int")
	}
	return k.T
}

func (e *Engine) mapHas(st *State, mt *types.Map, m, k string) string {
	dk, _, ks := e.mapKeys(mt)
	arr := e.heapGet(st, dk, "(Array Int (Array "+ks+" Bool))")
	return sel(sel(arr, m), k)
}

func (e *Engine) mapLoad(st *State, mt *types.Map, m, k string) Val {
	_, vk, ks := e.mapKeys(mt)
	ls := leaves(mt.Elem())
	terms := make([]string, len(ls))
	for i, l := range ls {
		arr := e.heapGet(st, fmt.Sprintf("%s:%d", vk, i), "(Array Int (Array "+ks+" "+l.Sort+"))")
		terms[i] = sel(sel(arr, m), k)
	}
	v, _ := fromComps(mt.Elem(), terms)
	e.typeInv(st, v)
	return v
}

func (e *Engine) mapStore(st *State, mt *types.Map, m, k string, v Val) {
	dk, vk, ks := e.mapKeys(mt)
	arr := e.heapGet(st, dk, "(Array Int (Array "+ks+" Bool))")
	st.heap[dk] = sto(arr, m, sto(sel(arr, m), k, "true"))
	ls := leaves(mt.Elem())
	cs := v.comps()
	if len(cs) != len(ls) {
		cs = make([]string, len(ls))
		for i, l := range ls {
			cs[i] = e.fresh("lost", l.Sort)
		}
	}
	for i, l := range ls {
		key := fmt.Sprintf("%s:%d", vk, i)
		a := e.heapGet(st, key, "(Array Int (Array "+ks+" "+l.Sort+"))")
		st.heap[key] = sto(a, m, sto(sel(a, m), k, cs[i]))
	}
}

func (e *Engine) mapDelete(st *State, mt *types.Map, m, k string) {
	dk, _, ks := e.mapKeys(mt)
	arr := e.heapGet(st, dk, "(Array Int (Array "+ks+" Bool))")
	st.heap[dk] = sto(arr, m, sto(sel(arr, m), k, "false"))
}

// alloc allocates a fresh object of type t and returns its address term.
func (e *Engine) alloc(st *State, t types.Type, owned bool) string {
	r := st.A.term()
	if st.A.off == 0 {
		st.assume("(> " + r + " 0)")
	}
	st.A.off += sizeOf(t)
	if owned {
		if os.Getenv("GOVC_DBGOWN") != "" {
			fmt.Fprintln(os.Stderr, "own", r)
		}
		st.owned = append(st.owned, ownedObj{r, t})
	}
	return r
}

// havocHeap forgets every heap array (an unknown callee ran). Objects allocated in this
// function that have not escaped keep their contents.
func (e *Engine) havocHeap(st *State, why string) {
	e.note("full heap havoc: " + why)
	old := st.heap
	st.heap = make(map[string]string, len(old))
	e.nfresh++
	ep := e.nfresh
	st.epoch = ep
	st.pending = nil
	for _, key := range sortedKeys(old) {
		if (strings.HasPrefix(key, "G:") && e.P.immutableGlobal(key)) || isGhostKey(key) {
			st.heap[key] = old[key]
			continue
		}
		srt := e.sortOfKey(key)
		if srt == "" {
			continue
		}
		n := sym(fmt.Sprintf("%s@%d", key, ep))
		e.decl(n, srt)
		st.heap[key] = n
		if strings.HasPrefix(key, "F:") {
			for _, o := range st.owned {
				if e.keyBelongsTo(key, o.ty) {
					st.assume(eq(sel(n, o.ref), sel(old[key], o.ref)))
				}
			}
		}
	}
	na := e.fresh("A", "Int")
	st.assume(fmt.Sprintf("(>= %s %s)", na, st.A.term()))
	st.A = allocCtr{na, 0}
}

func (e *Engine) sortOfKey(key string) string { return e.keySort[key] }

func (e *Engine) keyBelongsTo(key string, t types.Type) bool {
	return strings.HasPrefix(key, "F:"+typeName(t)+".")
}

// heapGet wrapper recording sorts
func init() {}

// ---- obligations ---------------------------------------------------------------------------

func (e *Engine) oblige(st *State, name, kind, text, goal, where string, props []string) {
	if goal == "true" {
		o := e.getObl(name, kind, text, props)
		o.Cases = append(o.Cases, OblCase{Goal: "true", Where: where})
		return
	}
	if v, ok := st.known(goal); ok && v {
		o := e.getObl(name, kind, text, props)
		o.Cases = append(o.Cases, OblCase{Goal: "true", Where: where})
		return
	}
	o := e.getObl(name, kind, text, props)
	o.Cases = append(o.Cases, OblCase{PC: append([]string{}, st.pc...), Goal: goal, Where: where})
	if !e.noAssume {
		st.assume(goal)
	}
}

func (e *Engine) getObl(name, kind, text string, props []string) *Obl {
	o, ok := e.obls[name]
	if !ok {
		o = &Obl{Name: name, Kind: kind, Text: text, Props: props, Fn: e.fn.String()}
		e.obls[name] = o
		e.oblOrder = append(e.oblOrder, name)
	}
	return o
}

func (e *Engine) fnShort() string {
	return shortFn(e.fn)
}

func shortFn(fn *ssa.Function) string {
	s := fn.String()
	s = strings.ReplaceAll(s, "github.com/ysugimoto/falco/v2/", "")
	return s
}

// siteName builds a stable obligation name for a panic site: function + kind + source line text.
func (e *Engine) siteName(fr *Frame, kind string, pos token.Pos, extra string) (name, where string) {
	p := e.P.prog.Fset.Position(pos)
	where = fmt.Sprintf("%s:%d", shortFile(p.Filename), p.Line)
	line := e.P.srcLine(p.Filename, p.Line)
	lbl := line
	if extra != "" {
		lbl = extra + " in `" + line + "`"
	}
	name = fmt.Sprintf("%s#%s:%s", e.fnShort(), kind, lbl)
	if fr.fn != e.fn {
		name += " @inl(" + shortFn(fr.fn) + ")"
	}
	// identical source lines at different positions get an ordinal (assigned in renameSites)
	key := fmt.Sprintf("%s\x00%012d", name, p.Offset)
	if e.sitePos == nil {
		e.sitePos = map[string]string{}
	}
	e.sitePos[key] = name
	name = key
	return
}

// renameSites replaces the position part of site names by an ordinal among equal labels.
func (e *Engine) renameSites() {
	groups := map[string][]string{}
	for key, name := range e.sitePos {
		groups[name] = append(groups[name], key)
	}
	ren := map[string]string{}
	for name, keys := range groups {
		sort.Strings(keys)
		for i, k := range keys {
			if i == 0 {
				ren[k] = name
			} else {
				ren[k] = fmt.Sprintf("%s #%d", name, i+1)
			}
		}
	}
	newObls := map[string]*Obl{}
	for i, n := range e.oblOrder {
		o := e.obls[n]
		if nn, ok := ren[n]; ok {
			o.Name = nn
			e.oblOrder[i] = nn
		}
		newObls[o.Name] = o
	}
	e.obls = newObls
}

func shortFile(f string) string {
	f = strings.TrimPrefix(f, strings.TrimSuffix(repoRoot(), "/")+"/")
	f = strings.TrimPrefix(f, "/repo/")
	return f
}

// ---- the stepping loop -----------------------------------------------------------------------

// exec runs st until its frame stack drops to stopDepth; returns the states at that point.
func (e *Engine) exec(start *State, stopDepth int) []*State {
	work := []*State{start}
	var done []*State
	for len(work) > 0 {
		if e.aborted != "" {
			return nil
		}
		st := work[len(work)-1]
		work = work[:len(work)-1]
		for {
			if len(st.frames) <= stopDepth {
				done = append(done, st)
				break
			}
			e.steps++
			if e.steps > 3000000 {
				e.aborted = "step budget"
				return nil
			}
			succ, cont := e.step(st)
			if cont {
				continue
			}
			work = append(work, succ...)
			break
		}
	}
	return done
}

// step executes one instruction. cont=true: keep running st; otherwise succ are the successors.
func (e *Engine) step(st *State) (succ []*State, cont bool) {
	fr := st.top()
	if fr.idx >= len(fr.block.Instrs) {
		e.aborted = "fell off block"
		return nil, false
	}
	ins := fr.block.Instrs[fr.idx]
	fr.idx++
	switch x := ins.(type) {
	case *ssa.If:
		c := e.get(st, x.Cond)
		if v, ok := st.known(c.T); ok {
			k := 0
			if !v {
				k = 1
			}
			return e.gotoBlock(st, fr.block.Succs[k]), false
		}
		s2 := st.clone()
		st.assumeCond(c.T)
		s2.assumeCond(not(c.T))
		e.paths++
		if e.debugForks != nil {
			e.debugForks[posString(e.P.prog.Fset, e.posOf(fr, x.Cond))+" "+e.P.srcLine(e.P.prog.Fset.Position(e.posOf(fr, x.Cond)).Filename, e.P.prog.Fset.Position(e.posOf(fr, x.Cond)).Line)]++
		}
		if e.paths > e.maxPaths {
			e.aborted = fmt.Sprintf("path budget (%d)", e.maxPaths)
			return nil, false
		}
		var out []*State
		// beyond a few dozen paths infeasible branches are pruned with the solver (cheap queries);
		// pruning an infeasible branch never loses an obligation that could fail
		prune := e.paths > 48 || (e.paths > 6 && e.con != nil && e.con.Lemma)
		// push else first so that then-branch is explored first (LIFO)
		if !prune || e.feasible(s2) {
			out = append(out, e.gotoBlock(s2, s2.top().block.Succs[1])...)
		}
		if !prune || e.feasible(st) {
			out = append(out, e.gotoBlock(st, fr.block.Succs[0])...)
		}
		return out, false
	case *ssa.Jump:
		return e.gotoBlock(st, fr.block.Succs[0]), false
	case *ssa.Return:
		var rs []Val
		for _, r := range x.Results {
			rs = append(rs, e.get(st, r))
		}
		if len(st.frames) == 1 && e.inSummary == 0 {
			// vacuity guard: remember the path conditions reaching each return of the function
			key := posString(e.P.prog.Fset, e.posOf(fr, nil))
			if e.covers == nil {
				e.covers = map[string][][]string{}
			}
			if len(e.covers[key]) < 400 {
				e.covers[key] = append(e.covers[key], append([]string{}, st.pc...))
			}
		}
		return e.doReturn(st, rs), false
	case *ssa.Panic:
		if e.wantSafe && x.Pos().IsValid() { // compiler-generated panics (range-over-func protocol) carry no position
			name, where := e.siteName(fr, "panic", x.Pos(), "")
			e.oblige(st, name, "K1", "explicit panic is unreachable", "false", where, e.safeProps())
		}
		return nil, false
	case *ssa.Call:
		return e.doCall(st, fr, x, &x.Call, x)
	case *ssa.Defer:
		e.pushDefer(st, fr, x)
		return nil, true
	case *ssa.RunDefers:
		return e.runDefers(st, fr)
	case *ssa.Go:
		st.imprecise = append(st.imprecise, "go statement")
		e.note("go statement in " + shortFn(fr.fn) + ": goroutine body not executed; heap havocked")
		e.havocHeap(st, "go")
		return nil, true
	default:
		e.instr(st, fr, ins)
		return nil, true
	}
}

func (e *Engine) note(s string) {
	for _, n := range e.notes {
		if n == s {
			return
		}
	}
	e.notes = append(e.notes, s)
}

func (e *Engine) safeProps() []string {
	if e.con != nil {
		for _, c := range e.con.get("safe") {
			return c.Props
		}
	}
	return e.props
}

// ---- loops ----------------------------------------------------------------------------------

type LoopInfo struct {
	header  *ssa.BasicBlock
	body    map[*ssa.BasicBlock]bool
	ordinal int // 1-based in source order
	cells   []*ssa.Alloc
	heapAll bool
	fields  []heapWrite
	rangeIdx *ssa.Alloc
	rangeLen ssa.Value
	rangeKind string // "index" "map" "string"
	eff       *Effect
}

type heapWrite struct {
	owner types.Type
	field int
	elem  types.Type
	cellT types.Type
	mapT  *types.Map
}

func (P *Program) loopsOf(fn *ssa.Function) map[*ssa.BasicBlock]*LoopInfo {
	P.mu.Lock()
	if l, ok := P.loopCache[fn]; ok {
		P.mu.Unlock()
		return l
	}
	P.mu.Unlock()
	loops := map[*ssa.BasicBlock]*LoopInfo{}
	for _, b := range fn.Blocks {
		for _, s := range b.Succs {
			if s.Dominates(b) { // back edge b -> s
				li := loops[s]
				if li == nil {
					li = &LoopInfo{header: s, body: map[*ssa.BasicBlock]bool{s: true}}
					loops[s] = li
				}
				// natural loop: nodes reaching b without passing through s
				stack := []*ssa.BasicBlock{b}
				for len(stack) > 0 {
					n := stack[len(stack)-1]
					stack = stack[:len(stack)-1]
					if li.body[n] {
						continue
					}
					li.body[n] = true
					stack = append(stack, n.Preds...)
				}
			}
		}
	}
	var hs []*ssa.BasicBlock
	for h := range loops {
		hs = append(hs, h)
	}
	sort.Slice(hs, func(i, j int) bool {
		pi, pj := firstPos(hs[i]), firstPos(hs[j])
		if pi != pj {
			return pi < pj
		}
		return hs[i].Index < hs[j].Index
	})
	for i, h := range hs {
		li := loops[h]
		li.ordinal = i + 1
		seenCell := map[*ssa.Alloc]bool{}
		li.eff = &Effect{Keys: map[string]bool{}}
		for b := range li.body {
			for _, ins := range b.Instrs {
				switch x := ins.(type) {
				case *ssa.Store:
					if a := rootAlloc(x.Addr); a != nil && !a.Heap {
						if !seenCell[a] {
							seenCell[a] = true
							li.cells = append(li.cells, a)
						}
					} else {
						P.storeEffect(li.eff, x.Addr, x.Val.Type())
					}
				case *ssa.MapUpdate:
					if mt, ok := x.Map.Type().Underlying().(*types.Map); ok {
						k, v := typeName(mt.Key()), typeName(mt.Elem())
						li.eff.Keys["MD:"+k+":"+v] = true
						li.eff.Keys["MV:"+k+":"+v+":"] = true
					} else {
						li.eff.setAll()
					}
				case *ssa.Go, *ssa.Send, *ssa.Select:
					li.eff.setAll()
				case *ssa.Defer:
					li.eff.setAll()
				case ssa.CallInstruction:
					P.callEffect(li.eff, x.Common(), fn)
				}
			}
		}
		li.heapAll = li.eff.full()
		sort.Slice(li.cells, func(a, b int) bool { return li.cells[a].Pos() < li.cells[b].Pos() })
		// range-index pattern
		if len(h.Instrs) >= 4 {
			if ld, ok := h.Instrs[0].(*ssa.UnOp); ok && ld.Op == token.MUL {
				if a, ok := ld.X.(*ssa.Alloc); ok && a.Comment == "rangeindex" {
					if cmp, ok := h.Instrs[3].(*ssa.BinOp); ok && cmp.Op == token.LSS {
						li.rangeIdx = a
						li.rangeLen = cmp.Y
						li.rangeKind = "index"
					}
				}
			}
		}
	}
	P.mu.Lock()
	P.loopCache[fn] = loops
	P.mu.Unlock()
	return loops
}

func firstPos(b *ssa.BasicBlock) token.Pos {
	best := token.Pos(1 << 30)
	for _, ins := range b.Instrs {
		if p := ins.Pos(); p.IsValid() && p < best {
			best = p
		}
	}
	// also look at predecessors' last instruction? header of `for` often has the cond
	return best
}

func rootAlloc(v ssa.Value) *ssa.Alloc {
	for {
		switch x := v.(type) {
		case *ssa.Alloc:
			return x
		case *ssa.FieldAddr:
			if _, isPtrToStructLocal := x.X.(*ssa.Alloc); isPtrToStructLocal {
				v = x.X
				continue
			}
			if fa, ok := x.X.(*ssa.FieldAddr); ok {
				v = fa
				continue
			}
			return nil
		case *ssa.IndexAddr:
			return nil
		default:
			return nil
		}
	}
}

// gotoBlock moves the top frame to block b, cutting loops at their headers.
func (e *Engine) gotoBlock(st *State, b *ssa.BasicBlock) []*State {
	fr := st.top()
	from := fr.block
	fr.prev = from
	fr.block = b
	fr.idx = 0
	loops := e.P.loopsOf(fr.fn)
	li := loops[b]
	if li == nil {
		return []*State{st}
	}
	isRoot := fr.fn == e.fn
	var invs, decs, assumes, lframes []*Clause
	if isRoot && e.con != nil {
		for _, c := range e.con.Clauses {
			if (c.Loop == li.ordinal || c.Loop == -1) && c.Kind == "loop-assigns" {
				lframes = append(lframes, c)
			}
			if (c.Loop == li.ordinal || c.Loop == -1) && c.Kind == "loop-assume" {
				assumes = append(assumes, c)
			}
			if (c.Loop == li.ordinal || c.Loop == -1) && c.Kind == "loop-invariant" {
				invs = append(invs, c)
			}
			if (c.Loop == li.ordinal || c.Loop == -1) && c.Kind == "loop-decreases" {
				decs = append(decs, c)
			}
		}
	}
	if left, ok := fr.unrolled[b]; ok && li.body[from] && b.Dominates(from) {
		if left <= 0 {
			return nil // more iterations than elements: infeasible
		}
		fr.unrolled[b] = left - 1
		return []*State{st}
	}
	if !(li.body[from] && b.Dominates(from)) && li.rangeIdx != nil && len(invs) == 0 && len(decs) == 0 {
		// a range loop over a slice whose length is a known small constant is simply executed
		if n, ok := e.constOf(st, e.get(st, li.rangeLen).T); ok && n <= 8 {
			if fr.unrolled == nil {
				fr.unrolled = map[*ssa.BasicBlock]int{}
			}
			fr.unrolled[b] = int(n) + 1
			return []*State{st}
		}
	}
	if isRoot && e.con != nil && e.con.has("terminates") && len(decs) == 0 && !(li.body[from] && b.Dominates(from)) && !rangeLoop(li, b) {
		// `terminates`: every loop of the function needs a measure (range loops end by construction)
		where := posString(e.P.prog.Fset, firstPos(b))
		e.oblige(st, fmt.Sprintf("%s#decreases:loop%d", e.fnShort(), li.ordinal), "K4", "the loop has no termination measure (`loop N decreases ...`)", "false", where, e.con.get("terminates")[0].Props)
	}
	invs = e.applicable(st, invs)
	if li.body[from] && b.Dominates(from) {
		if isRoot && e.inSummary == 0 && (len(invs) > 0 || len(decs) > 0) {
			// vacuity guard: some path through the loop body must be satisfiable, otherwise the
			// invariant-preservation obligations of this loop hold for no reason
			key := fmt.Sprintf("loop%d-body %s", li.ordinal, posString(e.P.prog.Fset, firstPos(b)))
			if e.covers == nil {
				e.covers = map[string][][]string{}
			}
			if len(e.covers[key]) < 400 {
				e.covers[key] = append(e.covers[key], append([]string{}, st.pc...))
			}
		}
		// back edge: re-establish invariants, check variant, end of path
		for k, c := range invs {
			v := e.evalSpecBool(st, e.entry, c.Expr, e.rootEnv(st, nil))
			e.oblige(st, fmt.Sprintf("%s#inv-step:loop%d.%d %s", e.fnShort(), li.ordinal, k+1, c.Label), "K2", c.Text, v, e.where(from), c.Props)
		}
		if ref := fr.loopRef[b]; ref != nil {
			for _, c := range lframes {
				e.noAssume = true
				e.checkFrameRel(st, ref, c, e.rootEnv(ref, nil), fmt.Sprintf("loop%d-assigns", li.ordinal), e.where(from))
				e.noAssume = false
			}
		}
		for _, c := range decs {
			v1 := e.evalSpec(st, e.entry, c.Expr, e.rootEnv(st, nil))
			v0, ok := fr.variant[b]
			if ok && v0.K == KTuple && v1.K == KTuple && len(v0.F) == len(v1.F) {
				// lexicographic: some component decreases, everything before it is unchanged; all components >= 0
				var alts, nonneg []string
				var same []string
				for k := range v0.F {
					alts = append(alts, and(append(append([]string{}, same...), "(bvslt "+v1.F[k].T+" "+v0.F[k].T+")")...))
					same = append(same, eq(v1.F[k].T, v0.F[k].T))
					nonneg = append(nonneg, "(bvsge "+v0.F[k].T+" "+bvLit(0, 64)+")")
				}
				goal := and(append([]string{or(alts...)}, nonneg...)...)
				e.oblige(st, fmt.Sprintf("%s#decreases:loop%d", e.fnShort(), li.ordinal), "K4", c.Text, goal, e.where(from), c.Props)
			} else if ok {
				v1 = e.coerce(v1, v0)
				goal := and("(bvslt "+v1.T+" "+v0.T+")", "(bvsge "+v0.T+" "+bvLit(0, e.widthOf(v0))+")")
				e.oblige(st, fmt.Sprintf("%s#decreases:loop%d", e.fnShort(), li.ordinal), "K4", c.Text, goal, e.where(from), c.Props)
			}
		}
		return nil
	}
	// entry edge
	for k, c := range invs {
		v := e.evalSpecBool(st, e.entry, c.Expr, e.rootEnv(st, nil))
		e.oblige(st, fmt.Sprintf("%s#inv-init:loop%d.%d %s", e.fnShort(), li.ordinal, k+1, c.Label), "K2", c.Text, v, e.where(from), c.Props)
	}
	// havoc loop-modified state
	for _, a := range li.cells {
		if id, ok := fr.cells[a]; ok {
			t := a.Type().Underlying().(*types.Pointer).Elem()
			st.cells[id] = e.freshVal(st, "loop."+a.Comment, t)
		}
	}
	if len(lframes) > 0 {
		// a declared loop frame: only these locations are forgotten (checked at the back edge)
		pre := st.clone()
		for _, c := range lframes {
			for _, loc := range c.Locs {
				e.havocLoc(st, pre, loc, e.rootEnv(pre, nil))
			}
		}
		na := e.fresh("A", "Int")
		st.assume(fmt.Sprintf("(>= %s %s)", na, st.A.term()))
		st.A = allocCtr{na, 0}
	} else if !li.eff.pure() {
		ownedSave := st.owned
		st.owned = nil // owned objects may be modified by the loop body itself
		e.havocEffect(st, li.eff, "loop")
		st.owned = ownedSave
	}
	if len(e.P.specs.Ghosts) > 0 {
		var callees []*ssa.Function
		unknown := false
		for b := range li.body {
			for _, ins := range b.Instrs {
				if call, ok := ins.(ssa.CallInstruction); ok {
					c := call.Common()
					if _, isB := c.Value.(*ssa.Builtin); isB {
						continue
					}
					if callee := c.StaticCallee(); callee != nil {
						callees = append(callees, callee)
					} else {
						callees = append(callees, e.P.siteCallees(fr.fn, c)...)
					}
				}
			}
		}
		e.havocGhosts(st, callees, unknown)
	}
	if li.rangeIdx != nil {
		if id, ok := fr.cells[li.rangeIdx]; ok {
			iv := st.cells[id]
			lv := e.get(st, li.rangeLen)
			st.assume(fmt.Sprintf("(and (bvsge %s #xffffffffffffffff) (bvslt %s %s))", iv.T, iv.T, lv.T))
		}
	}
	for _, c := range invs {
		v := e.evalSpecBool(st, e.entry, c.Expr, e.rootEnv(st, nil))
		st.assume(v)
	}
	for _, c := range assumes {
		// an unchecked assumption (ownership / separation fact); listed in the evidence
		v := e.evalSpecBool(st, e.entry, c.Expr, e.rootEnv(st, nil))
		st.assume(v)
		e.uncheckedAssumes[shortFn(e.fn)+" loop "+fmt.Sprint(li.ordinal)+": "+c.Text] = true
	}
	if len(lframes) > 0 || (isRoot && e.con != nil && e.con.usesAtLoop()) {
		if fr.loopRef == nil {
			fr.loopRef = map[*ssa.BasicBlock]*State{}
		}
		fr.loopRef[b] = st.clone()
	}
	for _, c := range decs {
		if fr.variant == nil {
			fr.variant = map[*ssa.BasicBlock]Val{}
		}
		fr.variant[b] = e.evalSpec(st, e.entry, c.Expr, e.rootEnv(st, nil))
	}
	return []*State{st}
}

func (e *Engine) where(b *ssa.BasicBlock) string {
	for i := len(b.Instrs) - 1; i >= 0; i-- {
		if p := b.Instrs[i].Pos(); p.IsValid() {
			pp := e.P.prog.Fset.Position(p)
			return fmt.Sprintf("%s:%d", shortFile(pp.Filename), pp.Line)
		}
	}
	return ""
}

func (e *Engine) widthOf(v Val) int {
	if v.Ty != nil {
		w, _ := intInfo(v.Ty)
		return w
	}
	return 64
}


// constOf: the term is a bit-vector literal, or the path condition pins it to one.
func (e *Engine) constOf(st *State, t string) (uint64, bool) {
	if v, ok := bvConst(t); ok {
		return v, true
	}
	for k := uint64(0); k <= 8; k++ {
		lit := bvLit(k, 64)
		if st.facts["(= "+t+" "+lit+")"] || st.facts["(= "+lit+" "+t+")"] {
			return k, true
		}
	}
	return 0, false
}


// applicable drops optional clauses whose names do not resolve in this function.
func (e *Engine) applicable(st *State, cls []*Clause) []*Clause {
	var out []*Clause
	for _, c := range cls {
		if !c.Optional {
			out = append(out, c)
			continue
		}
		nerr, nnote := len(e.specErrors), len(e.notes)
		sc := st.clone()
		e.evalSpecBool(sc, e.entry, c.Expr, e.rootEnv(sc, nil))
		if len(e.specErrors) > nerr {
			e.specErrors, e.notes = e.specErrors[:nerr], e.notes[:nnote]
			continue
		}
		out = append(out, c)
	}
	return out
}


func forkMap() map[string]int {
	if os.Getenv("GOVC_FORKS") != "" {
		return map[string]int{}
	}
	return nil
}


// feasible: is the path condition satisfiable? (unknown / timeout count as feasible)
func (e *Engine) feasible(st *State) bool {
	// quantified facts are left out: the query stays decidable and fast, and refuting a weaker
	// formula still refutes the path condition
	var qf []string
	for _, c := range st.pc {
		if !strings.Contains(c, "(forall ") && !strings.Contains(c, "(exists ") {
			qf = append(qf, c)
		}
	}
	body := and(qf...)
	e.nprune++
	if r, ok := e.feasibleIncremental(body); ok {
		return r != "unsat"
	}
	ax := e.axiomText()
	q := "(set-option :timeout 1500)\n" + e.usedDecls(body+ax) + ax + "(assert " + body + ")\n(check-sat)\n"
	ctx, cancel := context.WithTimeout(context.Background(), 5*time.Second)
	defer cancel()
	out, _ := runSolver(ctx, "z3-new", []string{"-in"}, q)
	return firstLine(out) != "unsat"
}

// feasProc: one long-lived z3 process per engine for the (many, small) feasibility queries; each
// query is push / assert / check-sat / pop over declarations that are sent once.
type feasProc struct {
	cmd    *exec.Cmd
	in     io.WriteCloser
	out    *bufio.Reader
	decls  int
	axioms int
	dead   bool
}

func (e *Engine) feasibleIncremental(body string) (string, bool) {
	if e.feas == nil {
		cmd := exec.Command("z3-new", "-in")
		in, err1 := cmd.StdinPipe()
		outp, err2 := cmd.StdoutPipe()
		if err1 != nil || err2 != nil || cmd.Start() != nil {
			e.feas = &feasProc{dead: true}
			return "", false
		}
		e.feas = &feasProc{cmd: cmd, in: in, out: bufio.NewReader(outp)}
		io.WriteString(in, "(set-option :timeout 1500)\n")
	}
	p := e.feas
	if p.dead {
		return "", false
	}
	var sb strings.Builder
	for _, d := range e.decls[p.decls:] {
		sb.WriteString(d + "\n")
	}
	p.decls = len(e.decls)
	for _, a := range e.axioms[p.axioms:] {
		sb.WriteString("(assert " + a + ")\n")
	}
	p.axioms = len(e.axioms)
	sb.WriteString("(push)\n(assert " + body + ")\n(check-sat)\n(pop)\n")
	if _, err := io.WriteString(p.in, sb.String()); err != nil {
		e.closeFeas()
		return "", false
	}
	type res struct {
		line string
		err  error
	}
	ch := make(chan res, 1)
	go func() {
		l, err := p.out.ReadString('\n')
		ch <- res{strings.TrimSpace(l), err}
	}()
	select {
	case r := <-ch:
		if r.err != nil || (r.line != "sat" && r.line != "unsat" && r.line != "unknown") {
			e.closeFeas() // an error message: fall back to one-shot queries
			return "", false
		}
		return r.line, true
	case <-time.After(6 * time.Second):
		e.closeFeas()
		return "unknown", true
	}
}

func (e *Engine) closeFeas() {
	if e.feas != nil && !e.feas.dead {
		e.feas.dead = true
		if e.feas.in != nil {
			e.feas.in.Close()
		}
		if e.feas.cmd != nil && e.feas.cmd.Process != nil {
			e.feas.cmd.Process.Kill()
			go e.feas.cmd.Wait()
		}
	}
}

// rangeLoop: a `for range` loop over a slice, array, string, map or integer (its trip count is fixed
// when the loop starts).
func rangeLoop(li *LoopInfo, h *ssa.BasicBlock) bool {
	if li.rangeIdx != nil {
		return true
	}
	for _, ins := range h.Instrs {
		if _, ok := ins.(*ssa.Next); ok {
			return true
		}
	}
	return false
}
