package main

// Built-in models of a few external functions, and facts about immutable globals.

import (
	"fmt"
	"go/types"
	"strings"

	"golang.org/x/tools/go/ssa"
)

func (e *Engine) freshError(st *State, t types.Type) Val {
	p := e.alloc(st, types.Typ[types.Int], false)
	return Val{K: KIface, Ty: t, T: p, X: []string{e.P.reg.tagOf(externErrType)}}
}

// causeOf models github.com/pkg/errors.Cause: an error whose dynamic type is one of the module's own
// error types without a Cause() method is its own cause; for every other error the cause is the
// uninterpreted pair (errcause.p, errcause.t), which WithStack/New constrain.
func (e *Engine) causeOf(a Val) Val {
	e.declFun("errcause.p", "(Int Int) Int")
	e.declFun("errcause.t", "(Int Int) Int")
	p := "(errcause.p " + a.T + " " + a.X[0] + ")"
	t := "(errcause.t " + a.T + " " + a.X[0] + ")"
	var own []string
	for _, it := range e.P.implementers(a.Ty) {
		ms := e.P.prog.MethodSets.MethodSet(it)
		causer := false
		for i := 0; i < ms.Len(); i++ {
			if n := ms.At(i).Obj().Name(); n == "Cause" || n == "Unwrap" {
				causer = true
			}
		}
		if !causer {
			own = append(own, eq(a.X[0], e.P.reg.tagOf(it)))
		}
	}
	if len(own) > 0 {
		c := or(own...)
		p = "(ite " + c + " " + a.T + " " + p + ")"
		t = "(ite " + c + " " + a.X[0] + " " + t + ")"
	}
	return Val{K: KIface, Ty: a.Ty, T: p, X: []string{t}}
}

var externErrType = types.NewNamed(types.NewTypeName(0, nil, "extern-error", nil), types.NewStruct(nil, nil), nil)

func (e *Engine) externModel(st *State, res ssa.Value, callee *ssa.Function, args []Val, c *ssa.CallCommon) bool {
	name := callee.String()
	rt := e.resultType(c)
	switch name {
	case "(*sync.Pool).Get":
		// a package-level pool with a static New function: a pooled object is indistinguishable from a
		// freshly created one (type, length); modelled as calling New
		if g, ok := c.Args[0].(*ssa.Global); ok {
			if nf := e.P.poolNew(g); nf != nil && len(st.frames) < 8 {
				e.usedExterns["(*sync.Pool).Get on "+g.Name()+" modelled as a call of its New function (pooled objects keep the type and length they were created with)"] = true
				e.poolCall = nf
				return false
			}
		}
		return false
	case "(*sync.Pool).Put":
		return true
	case "github.com/pkg/errors.WithStack":
		a := args[0]
		if a.K != KIface {
			return false
		}
		ne := e.freshError(st, rt)
		e.declFun("errcause.p", "(Int Int) Int")
		e.declFun("errcause.t", "(Int Int) Int")
		// cause(WithStack(x)) == cause(x)
		ca := e.causeOf(a)
		st.assume(eq("(errcause.p "+ne.T+" "+ne.X[0]+")", ca.T))
		st.assume(eq("(errcause.t "+ne.T+" "+ne.X[0]+")", ca.X[0]))
		e.bindResult(st, res, e.iteVal(eq(a.X[0], "0"), e.zeroVal(rt), ne))
		return true
	case "github.com/pkg/errors.Cause":
		a := args[0]
		if a.K != KIface {
			return false
		}
		e.declFun("errcause.p", "(Int Int) Int")
		e.declFun("errcause.t", "(Int Int) Int")
		r := e.causeOf(a)
		r.Ty = rt
		st.assume(eq(eq(r.X[0], "0"), eq(a.X[0], "0")))
		e.typeInv(st, r)
		e.bindResult(st, res, r)
		return true
	case "fmt.Errorf", "errors.New", "github.com/pkg/errors.New", "github.com/pkg/errors.Errorf":
		ne := e.freshError(st, rt)
		e.declFun("errcause.p", "(Int Int) Int")
		e.declFun("errcause.t", "(Int Int) Int")
		if name != "fmt.Errorf" { // fmt.Errorf may wrap (%w): its cause is unknown
			st.assume(eq("(errcause.p "+ne.T+" "+ne.X[0]+")", ne.T))
			st.assume(eq("(errcause.t "+ne.T+" "+ne.X[0]+")", ne.X[0]))
		}
		e.bindResult(st, res, ne)
		return true
	case "math.IsInf":
		f, s := args[0], args[1]
		t := "(and (fp.isInfinite " + f.T + ") (or (and (bvsge " + s.T + " #x0000000000000000) (fp.isPositive " + f.T + ")) (and (bvsle " + s.T + " #x0000000000000000) (fp.isNegative " + f.T + "))))"
		e.bindResult(st, res, boolVal(t))
		return true
	case "math.IsNaN":
		e.bindResult(st, res, boolVal("(fp.isNaN "+args[0].T+")"))
		return true
	case "math.Abs":
		e.bindResult(st, res, Val{K: KFloat, Ty: rt, T: "(fp.abs " + args[0].T + ")"})
		return true
	case "math/bits.RotateLeft64":
		x, k := args[0], args[1]
		km := "(bvand " + k.T + " #x000000000000003f)"
		e.bindResult(st, res, Val{K: KInt, Ty: rt, T: "(bvor (bvshl " + x.T + " " + km + ") (bvlshr " + x.T + " (bvand (bvsub #x0000000000000040 " + km + ") #x000000000000003f)))"})
		return true
	case "math.Float64bits", "math.Float64frombits":
		return false
	case "strings.HasPrefix", "strings.HasSuffix", "strings.Contains", "strings.EqualFold":
		if a, ok := e.litOf(args[0].T); ok {
			if b, ok := e.litOf(args[1].T); ok {
				var r bool
				switch name {
				case "strings.HasPrefix":
					r = strings.HasPrefix(a, b)
				case "strings.HasSuffix":
					r = strings.HasSuffix(a, b)
				case "strings.Contains":
					r = strings.Contains(a, b)
				case "strings.EqualFold":
					r = strings.EqualFold(a, b)
				}
				if r {
					e.bindResult(st, res, boolVal("true"))
				} else {
					e.bindResult(st, res, boolVal("false"))
				}
				return true
			}
		}
		return false
	case "strings.ToLower", "strings.ToUpper", "strings.TrimSpace":
		if a, ok := e.litOf(args[0].T); ok {
			var r string
			switch name {
			case "strings.ToLower":
				r = strings.ToLower(a)
			case "strings.ToUpper":
				r = strings.ToUpper(a)
			case "strings.TrimSpace":
				r = strings.TrimSpace(a)
			}
			e.bindResult(st, res, e.strLit(r, rt))
			return true
		}
		return false
	}
	return false
}

// globalFacts: an immutable package-level variable initialised with an allocation is non-nil.
func (e *Engine) globalFacts(st *State, g *ssa.Global, v Val) {
	init := e.P.globalInit(g)
	if init == nil {
		return
	}
	switch x := init.(type) {
	case *ssa.Alloc, *ssa.MakeMap, *ssa.MakeSlice, *ssa.MakeClosure, *ssa.Function:
		switch v.K {
		case KPtr, KMap, KSlice:
			st.assume("(> " + v.T + " 0)")
		}
		if mm, ok := x.(*ssa.MakeMap); ok && v.K == KMap {
			e.mapLiteralFacts(st, g, mm, v)
		}
	case *ssa.MakeInterface:
		if v.K == KIface {
			st.assume(eq(v.X[0], e.P.reg.tagOf(x.X.Type())))
			if _, ok := x.X.(*ssa.Alloc); ok {
				st.assume("(> " + v.T + " 0)")
			}
		}
	case *ssa.Slice:
		// a slice literal: known length and constant elements
		arr, ok := x.X.(*ssa.Alloc)
		if !ok || v.K != KSlice {
			return
		}
		at, ok := arr.Type().Underlying().(*types.Pointer).Elem().Underlying().(*types.Array)
		if !ok || x.Low != nil || x.High != nil {
			return
		}
		n := at.Len()
		st.assume(eq(v.X[1], bvLit(uint64(n), 64)))
		st.assume(eq(v.X[0], bvLit(0, 64)))
		st.assume("(> " + v.T + " 0)")
		if n > 64 {
			return
		}
		for _, b := range arr.Parent().Blocks {
			for _, ins := range b.Instrs {
				s, ok := ins.(*ssa.Store)
				if !ok {
					continue
				}
				ia, ok := s.Addr.(*ssa.IndexAddr)
				if !ok || ia.X != ssa.Value(arr) {
					continue
				}
				ic, ok1 := ia.Index.(*ssa.Const)
				vc, ok2 := s.Val.(*ssa.Const)
				if !ok1 || !ok2 || vc.Value == nil {
					continue
				}
				cv := e.constVal(st, vc)
				if len(cv.comps()) != 1 || len(leaves(at.Elem())) != 1 {
					continue
				}
				el := e.loadElem(st, at.Elem(), v.T, bvLit(uint64(ic.Int64()), 64))
				st.assume(eq(el.T, cv.T))
			}
		}
	case *ssa.Call:
		if c := x.Call.StaticCallee(); c != nil && v.K == KIface {
			switch c.String() {
			case "errors.New", "fmt.Errorf", "github.com/pkg/errors.New", "github.com/pkg/errors.Errorf":
				st.assume(not(eq(v.X[0], "0")))
				st.assume("(> " + v.T + " 0)")
			}
		}
	case *ssa.Const:
		if x.Value != nil {
			cv := e.constVal(st, x)
			if cv.T != "" && v.T != "" && len(v.comps()) == 1 {
				st.assume(eq(v.T, cv.T))
			}
		}
	}
}

func (P *Program) globalInit(g *ssa.Global) ssa.Value {
	P.mu.Lock()
	mut := P.mutGlobal[g]
	P.mu.Unlock()
	if mut || g.Pkg == nil {
		return nil
	}
	initFn := g.Pkg.Func("init")
	if initFn == nil {
		return nil
	}
	var found ssa.Value
	n := 0
	for _, b := range initFn.Blocks {
		for _, ins := range b.Instrs {
			if s, ok := ins.(*ssa.Store); ok && s.Addr == g {
				found = s.Val
				n++
			}
		}
	}
	if n == 1 {
		return found
	}
	return nil
}

// mapLiteralFacts: a package-level map literal that is only ever read (every use of the global is a
// load whose value flows only into lookups, range loops and len) keeps the entries written by the
// package initialiser: every present key maps to one of the constant values of the literal.
func (e *Engine) mapLiteralFacts(st *State, g *ssa.Global, mm *ssa.MakeMap, v Val) {
	mt, ok := mm.Type().Underlying().(*types.Map)
	if !ok || len(leaves(mt.Elem())) != 1 || !e.P.readOnlyMapGlobal(g) {
		return
	}
	seen := map[string]bool{}
	var vals []string
	type entry struct{ k, v string }
	var entries []entry
	keysConst := true
	for _, ref := range *mm.Referrers() {
		mu, ok := ref.(*ssa.MapUpdate)
		if !ok {
			continue
		}
		c, ok := mu.Value.(*ssa.Const)
		if !ok || mu.Map != ssa.Value(mm) {
			return
		}
		cv := e.constVal(st, c)
		if len(cv.comps()) != 1 {
			return
		}
		if !seen[cv.T] {
			seen[cv.T] = true
			vals = append(vals, cv.T)
		}
		if kc, ok := mu.Key.(*ssa.Const); ok {
			kv := e.constVal(st, kc)
			if len(kv.comps()) == 1 {
				entries = append(entries, entry{e.mapKeyTerm(mt, kv), cv.T})
				continue
			}
		}
		keysConst = false
	}
	if keysConst && len(entries) <= 400 {
		// every entry of the literal: the key is present and maps to its constant (a key written
		// twice keeps the last value; composite literals do not repeat keys)
		_, vk0, ks0 := e.mapKeys(mt)
		varr0 := e.heapGet(st, vk0+":0", "(Array Int (Array "+ks0+" "+leaves(mt.Elem())[0].Sort+"))")
		dupl := map[string]bool{}
		for _, en := range entries {
			if dupl[en.k] {
				continue
			}
			dupl[en.k] = true
			st.assume(e.mapHas(st, mt, v.T, en.k))
			st.assume(eq(sel(sel(varr0, v.T), en.k), en.v))
		}
		// ... and nothing else is present
		if len(entries) > 0 {
			_, _, ks1 := e.mapKeys(mt)
			e.nfresh++
			kq := sym(fmt.Sprintf("q.mk!%d", e.nfresh))
			var alts []string
			for k := range dupl {
				alts = append(alts, eq(kq, k))
			}
			sortStrings(alts)
			st.assume("(forall ((" + kq + " " + ks1 + ")) (=> " + e.mapHas(st, mt, v.T, kq) + " " + or(alts...) + "))")
		}
	}
	if len(vals) == 0 || len(vals) > 400 {
		return
	}
	sortStrings(vals)
	_, vk, ks := e.mapKeys(mt)
	e.nfresh++
	k := sym(fmt.Sprintf("q.mk!%d", e.nfresh))
	has := e.mapHas(st, mt, v.T, k)
	varr := e.heapGet(st, vk+":0", "(Array Int (Array "+ks+" "+leaves(mt.Elem())[0].Sort+"))")
	val := sel(sel(varr, v.T), k)
	var alts []string
	for _, c := range vals {
		alts = append(alts, eq(val, c))
	}
	e.usedExterns["package-level map literal "+g.Name()+" is read-only: its values are the constants of the literal"] = true
	st.assume("(forall ((" + k + " " + ks + ")) (=> " + has + " " + or(alts...) + "))")
}

// readOnlyMapGlobal: every instruction that mentions the global outside the package initialiser
// loads it, and the loaded map value is used only by lookups, range iteration and len.
func (P *Program) readOnlyMapGlobal(g *ssa.Global) bool {
	P.mu.Lock()
	if P.roMaps == nil {
		P.roMaps = map[*ssa.Global]bool{}
	}
	if v, ok := P.roMaps[g]; ok {
		P.mu.Unlock()
		return v
	}
	P.mu.Unlock()
	ok := true
	for fn := range P.allFuncs {
		if fn.Blocks == nil || !ok {
			continue
		}
		isInit := fn.Pkg == g.Pkg && fn.Name() == "init"
		for _, b := range fn.Blocks {
			for _, ins := range b.Instrs {
				var ops []*ssa.Value
				for _, op := range ins.Operands(ops) {
					if op == nil || *op != ssa.Value(g) {
						continue
					}
					if isInit {
						if _, isStore := ins.(*ssa.Store); isStore {
							continue
						}
					}
					ld, isLoad := ins.(*ssa.UnOp)
					if !isLoad {
						ok = false
						continue
					}
					for _, r := range *ld.Referrers() {
						switch u := r.(type) {
						case *ssa.Lookup:
							if u.X != ssa.Value(ld) {
								ok = false
							}
						case *ssa.Range:
						case *ssa.DebugRef:
						case *ssa.Call:
							if bi, isB := u.Call.Value.(*ssa.Builtin); !isB || bi.Name() != "len" {
								ok = false
							}
						default:
							ok = false
						}
					}
				}
			}
		}
	}
	P.mu.Lock()
	P.roMaps[g] = ok
	P.mu.Unlock()
	return ok
}
