package main

// Loading of /repo (tag verif), SSA construction, lookup helpers.

import (
	"fmt"
	"go/token"
	"go/types"
	"os"
	"regexp"
	"sort"
	"strings"
	"sync"
	"time"

	"golang.org/x/tools/go/callgraph"
	"golang.org/x/tools/go/packages"
	"golang.org/x/tools/go/ssa"
	"golang.org/x/tools/go/ssa/ssautil"
)

type Program struct {
	prog      *ssa.Program
	pkgs      []*packages.Package
	byPath    map[string]*packages.Package
	ssaPkgs   map[string]*ssa.Package
	specs     *SpecSet
	reg       *Registry
	mu        sync.Mutex
	loopCache map[*ssa.Function]map[*ssa.BasicBlock]*LoopInfo
	srcCache  map[string][]string
	implCache map[string][]types.Type
	mutGlobal map[*ssa.Global]bool
	allFuncs  map[*ssa.Function]bool
	loadSecs  float64
	root      string
	funcByKey map[string]*ssa.Function
	vtaOnce   sync.Once
	vta       *callgraph.Graph
	vtaSecs   float64
	cgOnce    sync.Once
	gwCache   map[string]map[*ssa.Function]bool
	cgEdges   map[*ssa.Function][]*ssa.Function
	cgDyn     []*ssa.Function
	cgDynFns  []*ssa.Function
	cgIsDyn   map[*ssa.Function]bool
	roMaps   map[*ssa.Global]bool
	effCache  map[*ssa.Function]*Effect
	dirCache  map[*ssa.Function]*Effect
}

func loadProgram(root string, patterns []string) (*Program, error) {
	t0 := time.Now()
	cfg := &packages.Config{Mode: packages.LoadAllSyntax, Dir: root, BuildFlags: []string{"-tags=verif"}, Env: append(os.Environ(), "GOFLAGS=-mod=mod", "GOPROXY=off")}
	pkgs, err := packages.Load(cfg, patterns...)
	if err != nil {
		return nil, err
	}
	nerr := 0
	packages.Visit(pkgs, nil, func(p *packages.Package) {
		for _, e := range p.Errors {
			if nerr < 10 {
				fmt.Fprintln(os.Stderr, "load error:", e)
			}
			nerr++
		}
	})
	if nerr > 0 {
		return nil, fmt.Errorf("%d package load errors", nerr)
	}
	prog, _ := ssautil.AllPackages(pkgs, ssa.InstantiateGenerics|ssa.NaiveForm)
	prog.Build()
	P := &Program{prog: prog, pkgs: pkgs, byPath: map[string]*packages.Package{}, ssaPkgs: map[string]*ssa.Package{}, reg: newRegistry(),
		loopCache: map[*ssa.Function]map[*ssa.BasicBlock]*LoopInfo{}, srcCache: map[string][]string{}, implCache: map[string][]types.Type{},
		mutGlobal: map[*ssa.Global]bool{}, root: root, funcByKey: map[string]*ssa.Function{}}
	packages.Visit(pkgs, nil, func(p *packages.Package) { P.byPath[p.PkgPath] = p })
	for _, sp := range prog.AllPackages() {
		P.ssaPkgs[sp.Pkg.Path()] = sp
	}
	P.allFuncs = ssautil.AllFunctions(prog)
	for fn := range P.allFuncs {
		if fn.Blocks == nil {
			continue
		}
		isInit := fn.Name() == "init" || strings.HasPrefix(fn.Name(), "init$") || strings.HasPrefix(fn.Name(), "init#")
		for _, b := range fn.Blocks {
			for _, ins := range b.Instrs {
				if s, ok := ins.(*ssa.Store); ok && !isInit {
					if g := rootGlobal(s.Addr); g != nil {
						P.mutGlobal[g] = true
					}
				}
				// address of a global escaping (passed to a call) counts as mutable
				if c, ok := ins.(ssa.CallInstruction); ok && !isInit {
					for _, a := range c.Common().Args {
						if g, ok := a.(*ssa.Global); ok {
							P.mutGlobal[g] = true
						}
					}
				}
			}
		}
	}
	specs, err := loadSpecs(root)
	if err != nil {
		return nil, err
	}
	P.specs = specs
	P.expandTemplates()
	P.loadSecs = time.Since(t0).Seconds()
	return P, nil
}

func rootGlobal(v ssa.Value) *ssa.Global {
	for {
		switch x := v.(type) {
		case *ssa.Global:
			return x
		case *ssa.FieldAddr:
			v = x.X
		case *ssa.IndexAddr:
			v = x.X
		default:
			return nil
		}
	}
}

func (P *Program) immutableGlobal(key string) bool {
	// key: "G:<pkg>.<name>:<leaf>"
	k := strings.TrimPrefix(key, "G:")
	if i := strings.LastIndex(k, ":"); i >= 0 {
		k = k[:i]
	}
	P.mu.Lock()
	defer P.mu.Unlock()
	for g, m := range P.mutGlobal {
		if m && strings.TrimPrefix(g.Pkg.Pkg.Path(), falcoMod+"/")+"."+g.Name() == k {
			return false
		}
	}
	return true
}

func (P *Program) globalFor(v *types.Var) *ssa.Global {
	if v.Pkg() == nil {
		return nil
	}
	sp := P.ssaPkgs[v.Pkg().Path()]
	if sp == nil {
		return nil
	}
	if g, ok := sp.Members[v.Name()].(*ssa.Global); ok {
		return g
	}
	return nil
}

func (P *Program) typesPkg(path string) *types.Package {
	if p, ok := P.byPath[path]; ok {
		return p.Types
	}
	return nil
}

func (P *Program) typesPkgByName(name string) *types.Package {
	var best *types.Package
	for path, p := range P.byPath {
		if p.Types != nil && p.Types.Name() == name {
			if best == nil || len(path) < len(best.Path()) {
				best = p.Types
			}
		}
	}
	return best
}

func (P *Program) srcLine(file string, line int) string {
	P.mu.Lock()
	defer P.mu.Unlock()
	ls, ok := P.srcCache[file]
	if !ok {
		data, _ := os.ReadFile(file)
		ls = strings.Split(string(data), "\n")
		P.srcCache[file] = ls
	}
	if line-1 < len(ls) && line >= 1 {
		s := strings.TrimSpace(ls[line-1])
		if i := strings.Index(s, "//"); i > 0 {
			s = strings.TrimSpace(s[:i])
		}
		return s
	}
	return ""
}

// funcKey: key used in contract files.
func funcKey(fn *ssa.Function) string {
	if fn.Pkg != nil {
		return fn.RelString(fn.Pkg.Pkg)
	}
	return fn.String()
}

func (P *Program) contractFor(fn *ssa.Function) *Contract {
	if fn == nil {
		return nil
	}
	if fn.Pkg != nil {
		if c, ok := P.specs.ByKey[fn.Pkg.Pkg.Path()+"::"+fn.RelString(fn.Pkg.Pkg)]; ok {
			return c
		}
	}
	// generic instantiation: look up origin
	if o := fn.Origin(); o != nil && o != fn {
		return P.contractFor(o)
	}
	if c, ok := P.specs.ByKey["::"+fn.String()]; ok {
		return c
	}
	return nil
}

func (P *Program) findFunc(pkgPath, key string) *ssa.Function {
	P.mu.Lock()
	defer P.mu.Unlock()
	k := pkgPath + "::" + key
	if f, ok := P.funcByKey[k]; ok {
		return f
	}
	for fn := range P.allFuncs {
		if fn.Pkg != nil && fn.Pkg.Pkg.Path() == pkgPath && fn.RelString(fn.Pkg.Pkg) == key {
			P.funcByKey[k] = fn
			return fn
		}
	}
	P.funcByKey[k] = nil
	return nil
}

func (P *Program) ifaceContract(t types.Type, method string) *Contract {
	n, ok := t.(*types.Named)
	if !ok {
		return nil
	}
	key := "iface " + typeName(n) + "." + method
	if c, ok := P.specs.ByKey["::"+key]; ok {
		return c
	}
	return nil
}

// implementers of an interface type among the named types of the falco module (pointer or value
// receivers), in deterministic order.
func (P *Program) implementers(t types.Type) []types.Type {
	it, ok := t.Underlying().(*types.Interface)
	if !ok || it.NumMethods() == 0 {
		return nil
	}
	key := types.TypeString(t, nil)
	P.mu.Lock()
	if r, ok := P.implCache[key]; ok {
		P.mu.Unlock()
		return r
	}
	P.mu.Unlock()
	var out []types.Type
	for path, p := range P.byPath {
		if !strings.HasPrefix(path, falcoMod) || p.Types == nil {
			continue
		}
		sc := p.Types.Scope()
		for _, name := range sc.Names() {
			tn, ok := sc.Lookup(name).(*types.TypeName)
			if !ok || tn.IsAlias() {
				continue
			}
			nt := tn.Type()
			if types.IsInterface(nt) {
				continue
			}
			if named, ok := nt.(*types.Named); ok && named.TypeParams().Len() > 0 {
				continue
			}
			if types.Implements(nt, it) {
				out = append(out, nt)
			} else if pt := types.NewPointer(nt); types.Implements(pt, it) {
				out = append(out, pt)
			}
		}
	}
	sort.Slice(out, func(i, j int) bool { return typeName(out[i]) < typeName(out[j]) })
	P.mu.Lock()
	P.implCache[key] = out
	P.mu.Unlock()
	return out
}

// closedWorld: all implementers of the interface are falco types (the interface itself is declared
// in the falco module and is not one that third-party code implements).
func (P *Program) closedWorld(t types.Type) bool {
	n, ok := t.(*types.Named)
	if !ok || n.Obj().Pkg() == nil {
		return false
	}
	return strings.HasPrefix(n.Obj().Pkg().Path(), falcoMod)
}

var purePkgs = []string{"strings", "strconv", "unicode", "unicode/utf8", "unicode/utf16", "math", "math/bits", "math/big", "errors",
	"github.com/pkg/errors", "net", "net/netip", "time", "regexp", "regexp/syntax", "path", "path/filepath", "net/url", "net/textproto",
	"encoding/hex", "encoding/base64", "encoding/base32", "encoding/binary", "crypto/md5", "crypto/sha1", "crypto/sha256", "crypto/sha512", "crypto/hmac",
	"crypto/subtle", "hash/crc32", "hash/fnv", "hash", "html", "mime", "slices", "maps", "cmp", "go.elara.ws/pcre", "golang.org/x/text",
	"github.com/google/uuid", "crypto/rand", "math/rand", "crypto/aes", "crypto/cipher", "sync/atomic", "os", "io/fs", "reflect", "runtime", "bytes",
	"github.com/fatih/color", "github.com/mattn/go-colorable", "unsafe", "internal", "hash/maphash", "crypto", "encoding/pem", "crypto/x509",
	"compress", "github.com/ysugimoto/twist", "github.com/goccy/go-yaml", "gopkg.in/yaml", "github.com/k0kubun/pp", "github.com/kyokomi/emoji", "fmt", "log", "sync"}

// externEffect classifies a call to a function outside the falco module that has no contract:
//   pure    - no effect on modelled memory
//   shallow - writes only what its arguments point to directly
//   full    - anything (callbacks into falco code are possible)
func (P *Program) externEffect(fn *ssa.Function, c *ssa.CallCommon) string {
	if con := P.contractFor(fn); con != nil && con.Extern {
		if con.has("pure") {
			return "pure"
		}
	}
	pkg := ""
	if fn.Pkg != nil {
		pkg = fn.Pkg.Pkg.Path()
	} else if fn.Object() != nil && fn.Object().Pkg() != nil {
		pkg = fn.Object().Pkg().Path()
	} else if o := fn.Origin(); o != nil && o.Pkg != nil {
		pkg = o.Pkg.Pkg.Path()
	}
	inPure := false
	for _, p := range purePkgs {
		if pkg == p || strings.HasPrefix(pkg, p+"/") {
			inPure = true
		}
	}
	sig := fn.Signature
	callback := false
	writes := false
	name := fn.Name()
	mutName := false
	for _, pre := range []string{"Put", "Read", "Encode", "Decode", "Copy", "Fill", "Sort", "Shuffle", "Store", "Swap", "CompareAndSwap", "Add", "Set", "Write", "Reset", "Grow", "Truncate", "Unmarshal", "Scan", "Stable", "Reverse", "Delete", "Insert", "Clear", "Seek", "Discard", "Peek", "Unread", "Flush", "Close", "Lock", "Unlock", "RLock", "RUnlock", "Do", "Wait", "Done", "Load", "Parse", "Init", "Sum", "Next", "Push", "Pop", "Remove", "Append", "Replace", "Expand", "XOR", "Mkdir", "Rename", "Chmod", "Truncate", "Sync"} {
		if strings.HasPrefix(name, pre) {
			mutName = true
		}
	}
	check := func(t types.Type, isRecv bool) {
		switch t.Underlying().(type) {
		case *types.Signature:
			callback = true
		case *types.Interface:
			if !inPure {
				callback = true
			}
		case *types.Pointer:
			// in pure packages a pointer receiver/argument of a stdlib type is only written by
			// mutator-named functions; falco never reads stdlib internals, so a shallow havoc is enough
			if !inPure || mutName || isRecv {
				writes = true
			}
		case *types.Slice, *types.Map:
			if !inPure || mutName {
				writes = true
			}
		}
	}
	if sig.Recv() != nil {
		check(sig.Recv().Type(), true)
	}
	for i := 0; i < sig.Params().Len(); i++ {
		check(sig.Params().At(i).Type(), false)
	}
	if callback {
		return "full"
	}
	if writes {
		return "shallow"
	}
	return "pure"
}

func (P *Program) callIsPure(c *ssa.CallCommon) bool {
	if _, ok := c.Value.(*ssa.Builtin); ok {
		switch c.Value.Name() {
		case "len", "cap", "min", "max", "print", "println", "ssa:wrapnilchk":
			return true
		}
		return false
	}
	callee := c.StaticCallee()
	if callee == nil {
		return false
	}
	if con := P.contractFor(callee); con != nil && con.has("pure") {
		return true
	}
	if !inFalco(callee) && P.externEffect(callee, c) == "pure" {
		return true
	}
	return false
}

// methodAssumedPure: interface methods that are assumed not to modify modelled memory when the
// dynamic type is unknown (Stringer-like observers).
func (P *Program) methodAssumedPure(t types.Type, method string) bool {
	switch method {
	case "String", "Error", "Type", "IsLiteral", "GetMeta", "ID", "Len", "Name":
		return true
	}
	return false
}

func (P *Program) ghostField(owner types.Type, name string) *GhostField {
	tn := typeName(owner)
	for i := range P.specs.Ghosts {
		g := &P.specs.Ghosts[i]
		if g.Name == name && (g.Struct == tn || strings.HasSuffix(tn, "/"+g.Struct) || strings.HasSuffix(tn, "."+g.Struct) || shortTypeName(tn) == g.Struct) {
			return g
		}
	}
	return nil
}

func shortTypeName(s string) string {
	// "interpreter/value.Integer" -> "value.Integer"
	if i := strings.LastIndex(s, "/"); i >= 0 {
		return s[i+1:]
	}
	return s
}

func posString(fset *token.FileSet, p token.Pos) string {
	pp := fset.Position(p)
	return fmt.Sprintf("%s:%d", shortFile(pp.Filename), pp.Line)
}


var detPkgs = []string{"strings", "strconv", "unicode", "unicode/utf8", "unicode/utf16", "math", "math/bits", "fmt", "bytes", "path", "path/filepath",
	"net", "net/netip", "regexp", "go.elara.ws/pcre", "net/url", "net/textproto", "encoding/hex", "encoding/base64", "encoding/binary", "sort", "errors",
	"crypto/md5", "crypto/sha1", "crypto/sha256", "crypto/sha512", "hash/crc32", "html", "slices", "time"}

// deterministic: same arguments (and same heap) give the same result.
func (P *Program) deterministic(fn *ssa.Function) bool {
	pkg := ""
	if fn.Pkg != nil {
		pkg = fn.Pkg.Pkg.Path()
	} else if fn.Object() != nil && fn.Object().Pkg() != nil {
		pkg = fn.Object().Pkg().Path()
	}
	ok := false
	for _, p := range detPkgs {
		if pkg == p {
			ok = true
		}
	}
	if !ok {
		return false
	}
	switch fn.Name() {
	case "Now", "Since", "Until", "After", "Tick", "NewTimer", "NewTicker", "Sleep", "LookupIP", "LookupHost", "LookupAddr", "Dial", "Listen", "Interfaces", "InterfaceAddrs", "Fprintf", "Fprint", "Fprintln", "Printf", "Print", "Println", "Sscanf", "Sscan":
		return false
	}
	return true
}


// poolNew finds the function stored into the New field of a package-level sync.Pool.
func (P *Program) poolNew(g *ssa.Global) *ssa.Function {
	if g.Pkg == nil {
		return nil
	}
	initFn := g.Pkg.Func("init")
	if initFn == nil {
		return nil
	}
	for _, b := range initFn.Blocks {
		for _, ins := range b.Instrs {
			s, ok := ins.(*ssa.Store)
			if !ok {
				continue
			}
			fa, ok := s.Addr.(*ssa.FieldAddr)
			if !ok || fa.X != ssa.Value(g) {
				continue
			}
			switch v := s.Val.(type) {
			case *ssa.Function:
				return v
			case *ssa.MakeClosure:
				if f, ok := v.Fn.(*ssa.Function); ok {
					return f
				}
			}
		}
	}
	return nil
}

// expandTemplates applies `forall-funcs REGEXP` contract templates to matching functions.
func (P *Program) expandTemplates() {
	for _, t := range P.specs.Templates {
		re, err := regexp.Compile(t.Key)
		if err != nil {
			P.specs.ParseErrs = append(P.specs.ParseErrs, "bad forall-funcs regexp "+t.Key)
			continue
		}
		var exc *regexp.Regexp
		for _, c := range t.get("except") {
			if len(c.Args) > 0 {
				exc, _ = regexp.Compile(c.Args[0])
			}
		}
		var fns []*ssa.Function
		for fn := range P.allFuncs {
			if fn.Pkg != nil && fn.Pkg.Pkg.Path() == t.Pkg && fn.Blocks != nil && (fn.Parent() == nil || strings.Contains(t.Key, `\$`)) && re.MatchString(fn.RelString(fn.Pkg.Pkg)) {
				if exc != nil && exc.MatchString(fn.RelString(fn.Pkg.Pkg)) {
					continue
				}
				fns = append(fns, fn)
			}
		}
		sort.Slice(fns, func(i, j int) bool { return fns[i].String() < fns[j].String() })
		for _, fn := range fns {
			key := t.Pkg + "::" + fn.RelString(fn.Pkg.Pkg)
			if _, isExtern := P.specs.ByKey["::"+fn.String()]; isExtern {
				continue // abstracted by an assumed (extern-style) contract: not swept
			}
			if ex, ok := P.specs.ByKey[key]; ok {
				if ex.has("no-template") {
					continue
				}
				for _, tc := range t.Clauses {
					cc := *tc
					cc.Tmpl = true
					if len(cc.Props) == 0 {
						cc.Props = t.Props
					}
					ex.Clauses = append(ex.Clauses, &cc)
				}
				ex.Props = append(ex.Props, t.Props...)
				continue
			}
			var tcl []*Clause
			for _, tc := range t.Clauses {
				cc := *tc
				cc.Tmpl = true
				if len(cc.Props) == 0 {
					cc.Props = t.Props
				}
				tcl = append(tcl, &cc)
			}
			c := &Contract{Key: fn.RelString(fn.Pkg.Pkg), Pkg: t.Pkg, File: t.File, Line: t.Line, Props: t.Props, Clauses: tcl, FromTemplate: true}
			P.specs.ByKey[key] = c
		}
	}
}
