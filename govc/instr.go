package main

// Semantics of the non-control SSA instructions.

import (
	"os"
	"fmt"
	"go/constant"
	"go/token"
	"go/types"
	"math"
	"strings"

	"golang.org/x/tools/go/ssa"
)

func (e *Engine) get(st *State, v ssa.Value) Val {
	fr := st.top()
	switch x := v.(type) {
	case *ssa.Const:
		return e.constVal(st, x)
	case *ssa.Global:
		return Val{K: KAddr, Ty: x.Type(), A: &Addr{Global: x, Ty: x.Type().Underlying().(*types.Pointer).Elem()}}
	case *ssa.Function:
		return Val{K: KFunc, Ty: x.Type(), Fn: x, T: e.P.reg.fnID(x.String())}
	case *ssa.Builtin:
		return Val{K: KFunc, Ty: x.Type(), T: "0"}
	case *ssa.FreeVar:
		for i, fv := range fr.fn.FreeVars {
			if fv == x && i < len(fr.env) {
				return fr.env[i]
			}
		}
		return e.freshVal(st, "freevar."+x.Name(), x.Type())
	}
	if r, ok := fr.regs[v]; ok {
		return r
	}
	// parameters of inlined frames are bound at push time; anything else is unknown
	r := e.freshVal(st, "undef."+v.Name(), v.Type())
	fr.regs[v] = r
	return r
}

func (e *Engine) set(st *State, v ssa.Value, x Val) {
	if x.Ty == nil {
		x.Ty = v.Type()
	}
	st.top().regs[v] = x
}

func (e *Engine) constVal(st *State, c *ssa.Const) Val {
	t := c.Type()
	if c.Value == nil {
		return e.zeroVal(t)
	}
	switch kindOf(t) {
	case KBool:
		return Val{K: KBool, Ty: t, T: fmt.Sprint(constant.BoolVal(c.Value))}
	case KInt:
		w, _ := intInfo(t)
		iv := constant.ToInt(c.Value)
		if i, ok := constant.Int64Val(iv); ok {
			return Val{K: KInt, Ty: t, T: bvLit(uint64(i), w)}
		}
		u, _ := constant.Uint64Val(iv)
		return Val{K: KInt, Ty: t, T: bvLit(u, w)}
	case KFloat:
		f, _ := constant.Float64Val(c.Value)
		return Val{K: KFloat, Ty: t, T: fpLit(f)}
	case KStr:
		s := constant.StringVal(c.Value)
		return e.strLit(s, t)
	}
	return e.freshVal(st, "const", t)
}

func (e *Engine) strLit(s string, t types.Type) Val {
	id := e.P.reg.strID(s)
	if !e.lenFacts[id] {
		e.lenFacts[id] = true
		e.declStrFuns()
		e.axioms = append(e.axioms, fmt.Sprintf("(= (strlen %s) %s)", id, bvLit(uint64(len(s)), 64)))
	}
	if t == nil {
		t = types.Typ[types.String]
	}
	return Val{K: KStr, Ty: t, T: id}
}

func (e *Engine) declStrFuns() {
	e.declFun("strlen", "(Int) (_ BitVec 64)")
	e.declFun("strcat", "(Int Int) Int")
	e.declFun("strat", "(Int (_ BitVec 64)) (_ BitVec 8)")
	e.declFun("strsub", "(Int (_ BitVec 64) (_ BitVec 64)) Int")
	e.declFun("strlt", "(Int Int) Bool")
}

func fpLit(f float64) string {
	b := math.Float64bits(f)
	sign := b >> 63
	exp := (b >> 52) & 0x7ff
	man := b & ((1 << 52) - 1)
	return fmt.Sprintf("(fp #b%b #b%011b #b%052b)", sign, exp, man)
}

func (e *Engine) strlen(st *State, s string) string {
	e.declStrFuns()
	t := "(strlen " + s + ")"
	st.assume("(and (bvsge " + t + " #x0000000000000000) (bvsle " + t + " #x0001000000000000))")
	return t
}

// ---- addresses ------------------------------------------------------------------------------

func (e *Engine) pointee(t types.Type) types.Type {
	if p, ok := t.Underlying().(*types.Pointer); ok {
		return p.Elem()
	}
	return nil
}

// load reads the value at address value a (a pointer-typed Val).
func (e *Engine) load(st *State, a Val, t types.Type) Val {
	switch a.K {
	case KPtr:
		return e.loadHeapCell(st, t, a.T)
	case KAddr:
		ad := a.A
		switch {
		case ad.Opaque:
			return e.freshVal(st, "opq", t)
		case ad.CellID != 0:
			return e.loadCell(st, ad, t)
		case ad.Global != nil:
			return e.pathGet(e.loadGlobal(st, ad.Global), ad.Path)
		case ad.Field != nil:
			s, _ := isStruct(ad.Owner)
			for i := 0; i < s.NumFields(); i++ {
				if s.Field(i) == ad.Field {
					return e.pathGet(e.loadField(st, ad.Owner, ad.Base, i), ad.Path)
				}
			}
		case ad.ElBase != "":
			return e.pathGet(e.loadElem(st, ad.ElTy, ad.ElBase, ad.ElIdx), ad.Path)
		}
	}
	return e.freshVal(st, "ld", t)
}

func (e *Engine) loadCell(st *State, ad *Addr, t types.Type) Val {
	v, ok := st.cells[ad.CellID]
	if !ok {
		return e.freshVal(st, "cell", t)
	}
	return e.pathGet(v, ad.Path)
}

func (e *Engine) pathGet(v Val, path []int) Val {
	for _, i := range path {
		if v.K != KStruct || i >= len(v.F) {
			return v
		}
		v = v.F[i]
	}
	return v
}

func (e *Engine) pathSet(v Val, path []int, nv Val) Val {
	if len(path) == 0 {
		return nv
	}
	if v.K != KStruct {
		return v
	}
	fs := append([]Val{}, v.F...)
	fs[path[0]] = e.pathSet(fs[path[0]], path[1:], nv)
	v.F = fs
	return v
}

func (e *Engine) store(st *State, a Val, v Val, t types.Type) {
	switch a.K {
	case KPtr:
		e.storeHeapCell(st, t, a.T, v)
		return
	case KAddr:
		ad := a.A
		switch {
		case ad.Opaque:
			st.imprecise = append(st.imprecise, "store through opaque address")
			return
		case ad.CellID != 0:
			st.cells[ad.CellID] = e.pathSet(st.cells[ad.CellID], ad.Path, v)
			return
		case ad.Global != nil:
			old := e.loadGlobal(st, ad.Global)
			e.storeGlobal(st, ad.Global, e.pathSet(old, ad.Path, v))
			return
		case ad.Field != nil:
			s, _ := isStruct(ad.Owner)
			for i := 0; i < s.NumFields(); i++ {
				if s.Field(i) == ad.Field {
					if len(ad.Path) > 0 {
						old := e.loadField(st, ad.Owner, ad.Base, i)
						v = e.pathSet(old, ad.Path, v)
					}
					e.storeField(st, ad.Owner, ad.Base, i, v)
					return
				}
			}
		case ad.ElBase != "":
			if len(ad.Path) > 0 {
				old := e.loadElem(st, ad.ElTy, ad.ElBase, ad.ElIdx)
				v = e.pathSet(old, ad.Path, v)
			}
			e.storeElem(st, ad.ElTy, ad.ElBase, ad.ElIdx, v)
			return
		}
	}
	st.imprecise = append(st.imprecise, "store through unknown address form")
}

func (e *Engine) globalKey(g *ssa.Global) string {
	return "G:" + strings.TrimPrefix(g.Pkg.Pkg.Path(), "github.com/ysugimoto/falco/v2/") + "." + g.Name()
}

func (e *Engine) loadGlobal(st *State, g *ssa.Global) Val {
	t := g.Type().Underlying().(*types.Pointer).Elem()
	ls := leaves(t)
	terms := make([]string, len(ls))
	for k, l := range ls {
		terms[k] = e.heapGet(st, fmt.Sprintf("%s:%d", e.globalKey(g), k), l.Sort)
	}
	v, _ := fromComps(t, terms)
	e.typeInv(st, v)
	e.globalFacts(st, g, v)
	return v
}

func (e *Engine) storeGlobal(st *State, g *ssa.Global, v Val) {
	t := g.Type().Underlying().(*types.Pointer).Elem()
	ls := leaves(t)
	cs := v.comps()
	if len(cs) != len(ls) {
		return
	}
	for k := range ls {
		e.heapGet(st, fmt.Sprintf("%s:%d", e.globalKey(g), k), ls[k].Sort)
		st.heap[fmt.Sprintf("%s:%d", e.globalKey(g), k)] = cs[k]
	}
}

// ---- instructions ---------------------------------------------------------------------------

func (e *Engine) instr(st *State, fr *Frame, ins ssa.Instruction) {
	switch x := ins.(type) {
	case *ssa.DebugRef:
	case *ssa.Alloc:
		t := x.Type().Underlying().(*types.Pointer).Elem()
		if !x.Heap {
			*st.ncell++
			id := *st.ncell
			fr.cells[x] = id
			st.cells[id] = e.zeroVal(t)
			e.set(st, x, Val{K: KAddr, Ty: x.Type(), A: &Addr{CellID: id, Ty: t}})
			return
		}
		if at, ok := t.Underlying().(*types.Array); ok {
			r := e.alloc(st, types.Typ[types.Int], true) // (owned until a slice of it is stored or passed on)
			e.zeroElems(st, at.Elem(), r)
			e.set(st, x, Val{K: KPtr, Ty: x.Type(), T: r})
			return
		}
		r := e.alloc(st, t, true)
		p := Val{K: KPtr, Ty: x.Type(), T: r}
		e.storeHeapCell(st, t, r, e.zeroVal(t))
		e.set(st, x, p)
	case *ssa.Store:
		a := e.get(st, x.Addr)
		v := e.get(st, x.Val)
		if !(a.K == KAddr && a.A != nil && a.A.CellID != 0) {
			e.escape(st, v) // (a value kept in a local variable of this function has not escaped)
		}
		e.checkNilAddr(st, fr, a, x.Pos(), x.Addr)
		e.store(st, a, v, x.Val.Type())
	case *ssa.UnOp:
		e.unop(st, fr, x)
	case *ssa.BinOp:
		e.set(st, x, e.binop(st, fr, x.Op, e.get(st, x.X), e.get(st, x.Y), x.X.Type(), x.Y.Type(), x.Type(), x.Pos()))
	case *ssa.FieldAddr:
		base := e.get(st, x.X)
		pt := e.pointee(x.X.Type())
		s, _ := isStruct(pt)
		f := s.Field(x.Field)
		switch base.K {
		case KPtr:
			e.nilCheck(st, fr, base.T, x.Pos(), x.X, "."+f.Name())
			e.assumeTypeInv(st, pt, base.T)
			if _, nested := isStruct(f.Type()); nested {
				e.set(st, x, Val{K: KPtr, Ty: x.Type(), T: addInt(base.T, e.offsetOf(s, x.Field))})
			} else {
				e.set(st, x, Val{K: KAddr, Ty: x.Type(), A: &Addr{Base: base.T, Field: f, Owner: pt, Ty: f.Type()}})
			}
		case KAddr:
			na := *base.A
			na.Path = append(append([]int{}, base.A.Path...), x.Field)
			na.Ty = f.Type()
			e.set(st, x, Val{K: KAddr, Ty: x.Type(), A: &na})
		default:
			e.set(st, x, Val{K: KAddr, Ty: x.Type(), A: &Addr{Opaque: true, Ty: f.Type()}})
		}
	case *ssa.Field:
		v := e.get(st, x.X)
		if v.K == KStruct && x.Field < len(v.F) {
			e.set(st, x, v.F[x.Field])
		} else {
			e.set(st, x, e.freshVal(st, "field", x.Type()))
		}
	case *ssa.IndexAddr:
		base := e.get(st, x.X)
		idx := e.toInt64(e.get(st, x.Index), x.Index.Type())
		switch base.K {
		case KSlice:
			et := x.X.Type().Underlying().(*types.Slice).Elem()
			e.boundsCheck(st, fr, idx, base.X[1], x.Pos(), x.X, x.Index)
			e.set(st, x, Val{K: KAddr, Ty: x.Type(), A: &Addr{ElBase: base.T, ElIdx: "(bvadd " + base.X[0] + " " + idx + ")", ElTy: et, Ty: et}})
		default: // pointer to array
			if pt := e.pointee(x.X.Type()); pt != nil {
				if at, ok := pt.Underlying().(*types.Array); ok {
					e.boundsCheck(st, fr, idx, bvLit(uint64(at.Len()), 64), x.Pos(), x.X, x.Index)
					if base.K == KPtr {
						e.nilCheck(st, fr, base.T, x.Pos(), x.X, "[]")
						e.set(st, x, Val{K: KAddr, Ty: x.Type(), A: &Addr{ElBase: base.T, ElIdx: idx, ElTy: at.Elem(), Ty: at.Elem()}})
						return
					}
					e.set(st, x, Val{K: KAddr, Ty: x.Type(), A: &Addr{Opaque: true, Ty: at.Elem()}})
					return
				}
			}
			e.set(st, x, Val{K: KAddr, Ty: x.Type(), A: &Addr{Opaque: true}})
		}
	case *ssa.Index:
		v := e.get(st, x.X)
		idx := e.toInt64(e.get(st, x.Index), x.Index.Type())
		if v.K == KStr {
			e.boundsCheck(st, fr, idx, e.strlen(st, v.T), x.Pos(), x.X, x.Index)
			e.set(st, x, Val{K: KInt, Ty: x.Type(), T: "(strat " + v.T + " " + idx + ")"})
		} else {
			if at, ok := x.X.Type().Underlying().(*types.Array); ok {
				e.boundsCheck(st, fr, idx, bvLit(uint64(at.Len()), 64), x.Pos(), x.X, x.Index)
			}
			e.set(st, x, e.freshVal(st, "idx", x.Type()))
		}
	case *ssa.Lookup:
		m := e.get(st, x.X)
		if m.K == KStr {
			idx := e.toInt64(e.get(st, x.Index), x.Index.Type())
			e.boundsCheck(st, fr, idx, e.strlen(st, m.T), x.Pos(), x.X, x.Index)
			e.set(st, x, Val{K: KInt, Ty: x.Type(), T: "(strat " + m.T + " " + idx + ")"})
			return
		}
		mt := x.X.Type().Underlying().(*types.Map)
		k := e.mapKeyTerm(mt, e.get(st, x.Index))
		has := and(not(eq(m.T, "0")), e.mapHas(st, mt, m.T, k))
		val := e.mapLoad(st, mt, m.T, k)
		zero := e.zeroVal(mt.Elem())
		res := e.iteVal(has, val, zero)
		if x.CommaOk {
			e.set(st, x, Val{K: KTuple, Ty: x.Type(), F: []Val{res, {K: KBool, Ty: types.Typ[types.Bool], T: has}}})
		} else {
			e.set(st, x, res)
		}
	case *ssa.MapUpdate:
		m := e.get(st, x.Map)
		mt := x.Map.Type().Underlying().(*types.Map)
		if e.wantSafe {
			name, where := e.siteName(fr, "nilmap", x.Pos(), "")
			e.oblige(st, name, "K1", "assignment to entry in nil map", not(eq(m.T, "0")), where, e.safeProps())
		}
		v := e.get(st, x.Value)
		e.escape(st, v)
		e.mapStore(st, mt, m.T, e.mapKeyTerm(mt, e.get(st, x.Key)), v)
	case *ssa.MakeMap:
		r := e.alloc(st, types.Typ[types.Int], false)
		mt := x.Type().Underlying().(*types.Map)
		dk, _, ks := e.mapKeys(mt)
		arr := e.heapGet(st, dk, "(Array Int (Array "+ks+" Bool))")
		st.heap[dk] = sto(arr, r, "((as const (Array "+ks+" Bool)) false)")
		e.set(st, x, Val{K: KMap, Ty: x.Type(), T: r})
	case *ssa.MakeSlice:
		r := e.alloc(st, types.Typ[types.Int], false)
		l := e.toInt64(e.get(st, x.Len), x.Len.Type())
		c := e.toInt64(e.get(st, x.Cap), x.Cap.Type())
		if e.wantSafe {
			name, where := e.siteName(fr, "makeslice", x.Pos(), "")
			e.oblige(st, name, "K1", "makeslice: len/cap in range", and("(bvsge "+l+" #x0000000000000000)", "(bvsle "+l+" "+c+")", "(bvslt "+c+" #x0000100000000000)"), where, e.safeProps())
		}
		et := x.Type().Underlying().(*types.Slice).Elem()
		e.zeroElems(st, et, r)
		e.set(st, x, Val{K: KSlice, Ty: x.Type(), T: r, X: []string{bvLit(0, 64), l, c}})
	case *ssa.MakeChan:
		e.set(st, x, Val{K: KOpaque, Ty: x.Type(), T: e.alloc(st, types.Typ[types.Int], false)})
	case *ssa.MakeClosure:
		fn := x.Fn.(*ssa.Function)
		var env []Val
		for _, b := range x.Bindings {
			env = append(env, e.get(st, b))
		}
		e.set(st, x, Val{K: KFunc, Ty: x.Type(), Fn: fn, Env: env, T: e.alloc(st, types.Typ[types.Int], false)})
	case *ssa.MakeInterface:
		v := e.get(st, x.X)
		e.set(st, x, e.makeIface(st, v, x.X.Type(), x.Type()))
	case *ssa.ChangeInterface:
		v := e.get(st, x.X)
		v.Ty = x.Type()
		e.set(st, x, v)
	case *ssa.ChangeType:
		v := e.get(st, x.X)
		v = e.retype(v, x.Type())
		e.set(st, x, v)
	case *ssa.Convert:
		e.set(st, x, e.convert(st, e.get(st, x.X), x.X.Type(), x.Type()))
	case *ssa.MultiConvert:
		e.set(st, x, e.freshVal(st, "mconv", x.Type()))
	case *ssa.TypeAssert:
		e.typeAssert(st, fr, x)
	case *ssa.Extract:
		t := e.get(st, x.Tuple)
		if t.K == KTuple && x.Index < len(t.F) {
			v := t.F[x.Index]
			e.set(st, x, v)
		} else {
			e.set(st, x, e.freshVal(st, "extract", x.Type()))
		}
	case *ssa.Phi:
		for i, p := range fr.block.Preds {
			if p == fr.prev {
				e.set(st, x, e.get(st, x.Edges[i]))
				return
			}
		}
		e.set(st, x, e.freshVal(st, "phi", x.Type()))
	case *ssa.Slice:
		e.sliceOp(st, fr, x)
	case *ssa.Range:
		v := e.get(st, x.X)
		e.set(st, x, Val{K: KOpaque, Ty: x.Type(), T: "0", F: []Val{v}})
	case *ssa.Next:
		e.next(st, fr, x)
	case *ssa.Send:
		st.imprecise = append(st.imprecise, "channel send")
	case *ssa.Select:
		e.set(st, x, e.freshVal(st, "select", x.Type()))
		st.imprecise = append(st.imprecise, "select")
	case *ssa.SliceToArrayPointer:
		e.set(st, x, Val{K: KAddr, Ty: x.Type(), A: &Addr{Opaque: true}})
	default:
		if v, ok := ins.(ssa.Value); ok {
			e.set(st, v, e.freshVal(st, "unk", v.Type()))
		}
		e.note(fmt.Sprintf("unmodelled instruction %T in %s", ins, shortFn(fr.fn)))
	}
}

func (e *Engine) retype(v Val, t types.Type) Val {
	v.Ty = t
	if v.K == KStruct {
		if s, ok := isStruct(t); ok && s.NumFields() == len(v.F) {
			fs := make([]Val, len(v.F))
			for i := range v.F {
				fs[i] = e.retype(v.F[i], s.Field(i).Type())
			}
			v.F = fs
		}
	}
	return v
}

func (e *Engine) zeroElems(st *State, et types.Type, base string) {
	ls := leaves(et)
	z := e.zeroVal(et).comps()
	if len(z) != len(ls) {
		return
	}
	for k, l := range ls {
		key := e.elemKey(et, k)
		arr := e.heapGet(st, key, "(Array Int (Array (_ BitVec 64) "+l.Sort+"))")
		st.heap[key] = sto(arr, base, "((as const (Array (_ BitVec 64) "+l.Sort+")) "+z[k]+")")
	}
}

func (e *Engine) toInt64(v Val, t types.Type) string {
	w, signed := intInfo(t)
	if v.K != KInt {
		return bvLit(0, 64)
	}
	if w == 64 {
		return v.T
	}
	if signed {
		return fmt.Sprintf("((_ sign_extend %d) %s)", 64-w, v.T)
	}
	return fmt.Sprintf("((_ zero_extend %d) %s)", 64-w, v.T)
}

func (e *Engine) makeIface(st *State, v Val, from, to types.Type) Val {
	tag := e.P.reg.tagOf(from)
	switch v.K {
	case KPtr, KStr, KMap, KOpaque:
		return Val{K: KIface, Ty: to, T: v.T, X: []string{tag}}
	case KIface:
		v.Ty = to
		return v
	case KInt:
		w, _ := intInfo(from)
		fn := fmt.Sprintf("unbox%d", w)
		e.declFun(fn, "(Int) "+bvSort(w))
		p := e.fresh("box", "Int")
		st.assume(eq("("+fn+" "+p+")", v.T))
		st.assume("(>= " + p + " 0)")
		return Val{K: KIface, Ty: to, T: p, X: []string{tag}}
	case KBool:
		e.declFun("unboxB", "(Int) Bool")
		p := e.fresh("box", "Int")
		st.assume(eq("(unboxB "+p+")", v.T))
		st.assume("(>= " + p + " 0)")
		return Val{K: KIface, Ty: to, T: p, X: []string{tag}}
	case KFunc:
		p := e.fresh("boxfn", "Int")
		st.assume("(>= " + p + " 0)")
		return Val{K: KIface, Ty: to, T: p, X: []string{tag}, Fn: v.Fn, Env: v.Env}
	}
	p := e.fresh("box", "Int")
	st.assume("(>= " + p + " 0)")
	return Val{K: KIface, Ty: to, T: p, X: []string{tag}}
}

func (e *Engine) unboxIface(st *State, v Val, to types.Type) Val {
	switch kindOf(to) {
	case KPtr, KStr, KMap, KOpaque:
		r := Val{K: kindOf(to), Ty: to, T: v.T}
		return r
	case KInt:
		w, _ := intInfo(to)
		fn := fmt.Sprintf("unbox%d", w)
		e.declFun(fn, "(Int) "+bvSort(w))
		return Val{K: KInt, Ty: to, T: "(" + fn + " " + v.T + ")"}
	case KBool:
		e.declFun("unboxB", "(Int) Bool")
		return Val{K: KBool, Ty: to, T: "(unboxB " + v.T + ")"}
	case KFunc:
		if v.Fn != nil {
			return Val{K: KFunc, Ty: to, Fn: v.Fn, Env: v.Env}
		}
	}
	return e.freshVal(st, "unbox", to)
}

func (e *Engine) typeAssert(st *State, fr *Frame, x *ssa.TypeAssert) {
	v := e.get(st, x.X)
	if v.K != KIface {
		e.set(st, x, e.freshVal(st, "ta", x.Type()))
		return
	}
	var ok string
	var res Val
	if types.IsInterface(x.AssertedType) {
		// assertion to an interface type: succeeds iff the dynamic type implements it
		ok = e.implementsTerm(st, v, x.X.Type(), x.AssertedType)
		res = v
		res.Ty = x.AssertedType
	} else {
		ok = eq(v.X[0], e.P.reg.tagOf(x.AssertedType))
		res = e.unboxIface(st, v, x.AssertedType)
	}
	if x.CommaOk {
		zero := e.zeroVal(x.AssertedType)
		e.set(st, x, Val{K: KTuple, Ty: x.Type(), F: []Val{e.iteVal(ok, res, zero), {K: KBool, Ty: types.Typ[types.Bool], T: ok}}})
		return
	}
	if e.wantSafe {
		name, where := e.siteName(fr, "typeassert", x.Pos(), "")
		e.oblige(st, name, "K1", "type assertion succeeds", ok, where, e.safeProps())
	} else {
		st.assume(ok)
	}
	e.set(st, x, res)
}

// implementsTerm: the dynamic type of v implements iface (closed world over known tags).
func (e *Engine) implementsTerm(st *State, v Val, static, iface types.Type) string {
	it, _ := iface.Underlying().(*types.Interface)
	if it == nil {
		return e.fresh("impl", "Bool")
	}
	if it.NumMethods() == 0 {
		return not(eq(v.X[0], "0"))
	}
	impls := e.P.implementers(iface)
	if impls == nil {
		return e.fresh("impl", "Bool")
	}
	var ds []string
	for _, t := range impls {
		ds = append(ds, eq(v.X[0], e.P.reg.tagOf(t)))
	}
	// closed world only when the static type's implementers are all known falco types;
	// otherwise unknown third-party types may implement it too
	if !e.P.closedWorld(static) {
		u := e.fresh("impl", "Bool")
		return and(not(eq(v.X[0], "0")), or(append(ds, u)...))
	}
	return or(ds...)
}

func (e *Engine) iteVal(c string, a, b Val) Val {
	if c == "true" {
		return a
	}
	if c == "false" {
		return b
	}
	switch a.K {
	case KStruct, KTuple:
		if len(a.F) != len(b.F) {
			return a
		}
		r := Val{K: a.K, Ty: a.Ty}
		for i := range a.F {
			r.F = append(r.F, e.iteVal(c, a.F[i], b.F[i]))
		}
		return r
	case KIface:
		r := Val{K: KIface, Ty: a.Ty, T: ite(c, a.T, b.T), X: []string{ite(c, a.X[0], b.X[0])}}
		if a.Fn != nil && b.Fn == a.Fn {
			r.Fn, r.Env = a.Fn, a.Env
		}
		return r
	case KSlice:
		return Val{K: KSlice, Ty: a.Ty, T: ite(c, a.T, b.T), X: []string{ite(c, a.X[0], b.X[0]), ite(c, a.X[1], b.X[1]), ite(c, a.X[2], b.X[2])}}
	case KAddr:
		return a
	case KFunc:
		if a.Fn == b.Fn {
			return a
		}
		return Val{K: KFunc, Ty: a.Ty, T: "0"}
	}
	if a.T == "" || b.T == "" {
		return a
	}
	return Val{K: a.K, Ty: a.Ty, T: ite(c, a.T, b.T)}
}

func (e *Engine) unop(st *State, fr *Frame, x *ssa.UnOp) {
	switch x.Op {
	case token.MUL:
		a := e.get(st, x.X)
		e.checkNilAddr(st, fr, a, x.Pos(), x.X)
		e.set(st, x, e.load(st, a, x.Type()))
	case token.SUB:
		v := e.get(st, x.X)
		if v.K == KInt {
			e.set(st, x, Val{K: KInt, Ty: x.Type(), T: "(bvneg " + v.T + ")"})
		} else if v.K == KFloat {
			e.set(st, x, Val{K: KFloat, Ty: x.Type(), T: "(fp.neg " + v.T + ")"})
		} else {
			e.set(st, x, e.freshVal(st, "neg", x.Type()))
		}
	case token.NOT:
		v := e.get(st, x.X)
		e.set(st, x, Val{K: KBool, Ty: x.Type(), T: not(v.T)})
	case token.XOR:
		v := e.get(st, x.X)
		e.set(st, x, Val{K: KInt, Ty: x.Type(), T: "(bvnot " + v.T + ")"})
	case token.ARROW:
		st.imprecise = append(st.imprecise, "channel receive")
		e.set(st, x, e.freshVal(st, "recv", x.Type()))
	default:
		e.set(st, x, e.freshVal(st, "unop", x.Type()))
	}
}

func (e *Engine) checkNilAddr(st *State, fr *Frame, a Val, pos token.Pos, src ssa.Value) {
	if a.K == KPtr {
		e.nilCheck(st, fr, a.T, pos, src, "*")
	}
}

func (e *Engine) nilCheck(st *State, fr *Frame, ref string, pos token.Pos, src ssa.Value, what string) {
	goal := not(eq(ref, "0"))
	if !e.wantSafe {
		st.assume(goal)
		return
	}
	if v, ok := st.known(goal); ok && v {
		return
	}
	if !pos.IsValid() {
		pos = e.posOf(fr, src)
	}
	name, where := e.siteName(fr, "nil", pos, e.describe(src)+what)
	e.oblige(st, name, "K1", "nil dereference", goal, where, e.safeProps())
}

func (e *Engine) posOf(fr *Frame, v ssa.Value) token.Pos {
	if v != nil && v.Pos().IsValid() {
		return v.Pos()
	}
	// nearest earlier instruction with a position
	for i := fr.idx - 1; i >= 0; i-- {
		if p := fr.block.Instrs[i].Pos(); p.IsValid() {
			return p
		}
	}
	return fr.fn.Pos()
}

// describe gives a short source-like description of an SSA value (for obligation labels).
func (e *Engine) describe(v ssa.Value) string {
	switch x := v.(type) {
	case *ssa.Parameter:
		return x.Name()
	case *ssa.UnOp:
		if x.Op == token.MUL {
			if a, ok := x.X.(*ssa.Alloc); ok {
				return a.Comment
			}
			if fa, ok := x.X.(*ssa.FieldAddr); ok {
				pt := fa.X.Type().Underlying().(*types.Pointer).Elem().Underlying().(*types.Struct)
				return e.describe(fa.X) + "." + pt.Field(fa.Field).Name()
			}
			if g, ok := x.X.(*ssa.Global); ok {
				return g.Name()
			}
			return "*" + e.describe(x.X)
		}
	case *ssa.Alloc:
		return "&" + x.Comment
	case *ssa.FieldAddr:
		pt := x.X.Type().Underlying().(*types.Pointer).Elem().Underlying().(*types.Struct)
		return "&" + e.describe(x.X) + "." + pt.Field(x.Field).Name()
	case *ssa.Call:
		if c := x.Call.StaticCallee(); c != nil {
			return c.Name() + "()"
		}
		if x.Call.IsInvoke() {
			return e.describe(x.Call.Value) + "." + x.Call.Method.Name() + "()"
		}
		return "call()"
	case *ssa.Extract:
		return e.describe(x.Tuple) + fmt.Sprintf("#%d", x.Index)
	case *ssa.TypeAssert:
		return e.describe(x.X) + ".(" + typeName(x.AssertedType) + ")"
	case *ssa.FreeVar:
		return x.Name()
	case *ssa.Const:
		return x.Value.String()
	case *ssa.IndexAddr:
		return e.describe(x.X) + "[]"
	case *ssa.Field:
		return e.describe(x.X) + "." + fmt.Sprint(x.Field)
	}
	if v == nil {
		return "?"
	}
	return v.Name()
}

func (e *Engine) boundsCheck(st *State, fr *Frame, idx, ln string, pos token.Pos, base, index ssa.Value) {
	goal := and("(bvsge "+idx+" #x0000000000000000)", "(bvslt "+idx+" "+ln+")")
	if !e.wantSafe {
		st.assume(goal)
		return
	}
	if !pos.IsValid() {
		pos = e.posOf(fr, base)
	}
	name, where := e.siteName(fr, "index", pos, e.describe(base)+"["+e.describe(index)+"]")
	e.oblige(st, name, "K1", "index in range", goal, where, e.safeProps())
}

func (e *Engine) sliceOp(st *State, fr *Frame, x *ssa.Slice) {
	v := e.get(st, x.X)
	z := bvLit(0, 64)
	lo, hi, mx := z, "", ""
	if x.Low != nil {
		lo = e.toInt64(e.get(st, x.Low), x.Low.Type())
	}
	if x.High != nil {
		hi = e.toInt64(e.get(st, x.High), x.High.Type())
	}
	if x.Max != nil {
		mx = e.toInt64(e.get(st, x.Max), x.Max.Type())
	}
	check := func(goal string) {
		if !e.wantSafe {
			st.assume(goal)
			return
		}
		name, where := e.siteName(fr, "slice", x.Pos(), e.describe(x.X)+"[:]")
		e.oblige(st, name, "K1", "slice bounds in range", goal, where, e.safeProps())
	}
	switch v.K {
	case KStr:
		ln := e.strlen(st, v.T)
		if hi == "" {
			hi = ln
		}
		check(and("(bvsle "+z+" "+lo+")", "(bvsle "+lo+" "+hi+")", "(bvsle "+hi+" "+ln+")"))
		e.declStrFuns()
		r := "(strsub " + v.T + " " + lo + " " + hi + ")"
		st.assume(eq("(strlen "+r+")", "(bvsub "+hi+" "+lo+")"))
		st.assume(implies(and(eq(lo, z), eq(hi, ln)), eq(r, v.T)))
		e.set(st, x, Val{K: KStr, Ty: x.Type(), T: r})
	case KSlice:
		if hi == "" {
			hi = v.X[1]
		}
		if mx == "" {
			mx = v.X[2]
		}
		check(and("(bvsle "+z+" "+lo+")", "(bvsle "+lo+" "+hi+")", "(bvsle "+hi+" "+mx+")", "(bvsle "+mx+" "+v.X[2]+")"))
		e.set(st, x, Val{K: KSlice, Ty: x.Type(), T: v.T, X: []string{"(bvadd " + v.X[0] + " " + lo + ")", "(bvsub " + hi + " " + lo + ")", "(bvsub " + mx + " " + lo + ")"}})
	case KPtr:
		if pt := e.pointee(x.X.Type()); pt != nil {
			if at, ok := pt.Underlying().(*types.Array); ok {
				n := bvLit(uint64(at.Len()), 64)
				if hi == "" {
					hi = n
				}
				if mx == "" {
					mx = n
				}
				check(and("(bvsle "+z+" "+lo+")", "(bvsle "+lo+" "+hi+")", "(bvsle "+hi+" "+mx+")", "(bvsle "+mx+" "+n+")"))
				e.set(st, x, Val{K: KSlice, Ty: x.Type(), T: v.T, X: []string{lo, "(bvsub " + hi + " " + lo + ")", "(bvsub " + mx + " " + lo + ")"}})
				return
			}
		}
		e.set(st, x, e.freshVal(st, "slice", x.Type()))
	default:
		e.set(st, x, e.freshVal(st, "slice", x.Type()))
	}
}

func (e *Engine) next(st *State, fr *Frame, x *ssa.Next) {
	it := e.get(st, x.Iter)
	ok := e.fresh("next.ok", "Bool")
	tup := x.Type().(*types.Tuple)
	res := Val{K: KTuple, Ty: x.Type(), F: []Val{{K: KBool, Ty: types.Typ[types.Bool], T: ok}}}
	if x.IsString {
		idx := e.freshVal(st, "next.i", tup.At(1).Type())
		r := e.freshVal(st, "next.r", tup.At(2).Type())
		if len(it.F) == 1 && it.F[0].K == KStr {
			st.assume(implies(ok, and("(bvsge "+idx.T+" #x0000000000000000)", "(bvslt "+idx.T+" "+e.strlen(st, it.F[0].T)+")")))
		}
		st.assume("(bvsge " + r.T + " #x00000000)")
		res.F = append(res.F, idx, r)
	} else {
		var k, v Val
		if len(it.F) == 1 && it.F[0].K == KMap {
			mt := it.F[0].Ty.Underlying().(*types.Map)
			k = e.freshVal(st, "next.k", mt.Key())
			kt := e.mapKeyTerm(mt, k)
			st.assume(implies(ok, and(not(eq(it.F[0].T, "0")), e.mapHas(st, mt, it.F[0].T, kt))))
			v = e.mapLoad(st, mt, it.F[0].T, kt)
			k = e.retype(k, tup.At(1).Type())
		} else {
			k = e.freshVal(st, "next.k", tup.At(1).Type())
			v = e.freshVal(st, "next.v", tup.At(2).Type())
		}
		res.F = append(res.F, k, v)
	}
	e.set(st, x, res)
}

// escape: a value stored into the heap / passed to unknown code is no longer owned.
func (e *Engine) escape(st *State, v Val) {
	if len(st.owned) == 0 {
		return
	}
	var t string
	switch v.K {
	case KPtr, KIface, KSlice, KMap:
		t = v.T
	case KStruct, KTuple:
		for _, f := range v.F {
			e.escape(st, f)
		}
		return
	default:
		return
	}
	if os.Getenv("GOVC_DBGOWN") != "" {
		fmt.Fprintln(os.Stderr, "escape", t)
	}
	for i, o := range st.owned {
		if o.ref == t || strings.HasPrefix(t, "(+ "+o.ref+" ") {
			st.owned = append(append([]ownedObj{}, st.owned[:i]...), st.owned[i+1:]...)
			return
		}
	}
	// unknown term (ite etc.): conservatively drop any owned ref mentioned in it
	var keep []ownedObj
	for _, o := range st.owned {
		if !strings.Contains(t, o.ref) {
			keep = append(keep, o)
		}
	}
	st.owned = keep
}

// ---- arithmetic -----------------------------------------------------------------------------

func (e *Engine) binop(st *State, fr *Frame, op token.Token, x, y Val, xt, yt, rt types.Type, pos token.Pos) Val {
	bop := func(s string) Val { return Val{K: kindOf(rt), Ty: rt, T: "(" + s + " " + x.T + " " + y.T + ")"} }
	switch kindOf(xt) {
	case KInt:
		w, signed := intInfo(xt)
		zero := bvLit(0, w)
		switch op {
		case token.ADD:
			return bop("bvadd")
		case token.SUB:
			return bop("bvsub")
		case token.MUL:
			return bop("bvmul")
		case token.QUO, token.REM:
			goal := not(eq(y.T, zero))
			if e.wantSafe && fr != nil {
				name, where := e.siteName(fr, "div0", pos, "")
				e.oblige(st, name, "K1", "integer division by zero", goal, where, e.safeProps())
			} else {
				st.assume(goal)
			}
			if op == token.QUO {
				if signed {
					return bop("bvsdiv")
				}
				return bop("bvudiv")
			}
			if signed {
				return bop("bvsrem")
			}
			return bop("bvurem")
		case token.AND:
			return bop("bvand")
		case token.OR:
			return bop("bvor")
		case token.XOR:
			return bop("bvxor")
		case token.AND_NOT:
			return Val{K: KInt, Ty: rt, T: "(bvand " + x.T + " (bvnot " + y.T + "))"}
		case token.SHL, token.SHR:
			yw, ysigned := intInfo(yt)
			if ysigned {
				goal := "(bvsge " + y.T + " " + bvLit(0, yw) + ")"
				if e.wantSafe && fr != nil {
					name, where := e.siteName(fr, "shift", pos, "")
					e.oblige(st, name, "K1", "negative shift count", goal, where, e.safeProps())
				} else {
					st.assume(goal)
				}
			}
			// count as unsigned, compared against the width
			cnt := y.T
			var big string
			if yw > w {
				big = "(bvuge " + y.T + " " + bvLit(uint64(w), yw) + ")"
				cnt = fmt.Sprintf("((_ extract %d 0) %s)", w-1, y.T)
			} else {
				if yw < w {
					cnt = fmt.Sprintf("((_ zero_extend %d) %s)", w-yw, y.T)
				}
				big = "(bvuge " + cnt + " " + bvLit(uint64(w), w) + ")"
			}
			var sh, over string
			switch {
			case op == token.SHL:
				sh, over = "(bvshl "+x.T+" "+cnt+")", zero
			case signed:
				sh, over = "(bvashr "+x.T+" "+cnt+")", "(bvashr "+x.T+" "+bvLit(uint64(w-1), w)+")"
			default:
				sh, over = "(bvlshr "+x.T+" "+cnt+")", zero
			}
			return Val{K: KInt, Ty: rt, T: ite(big, over, sh)}
		case token.EQL:
			return Val{K: KBool, Ty: rt, T: eq(x.T, y.T)}
		case token.NEQ:
			return Val{K: KBool, Ty: rt, T: not(eq(x.T, y.T))}
		case token.LSS:
			if signed {
				return bop("bvslt")
			}
			return bop("bvult")
		case token.LEQ:
			if signed {
				return bop("bvsle")
			}
			return bop("bvule")
		case token.GTR:
			if signed {
				return bop("bvsgt")
			}
			return bop("bvugt")
		case token.GEQ:
			if signed {
				return bop("bvsge")
			}
			return bop("bvuge")
		}
	case KFloat:
		switch op {
		case token.ADD:
			return Val{K: KFloat, Ty: rt, T: "(fp.add RNE " + x.T + " " + y.T + ")"}
		case token.SUB:
			return Val{K: KFloat, Ty: rt, T: "(fp.sub RNE " + x.T + " " + y.T + ")"}
		case token.MUL:
			return Val{K: KFloat, Ty: rt, T: "(fp.mul RNE " + x.T + " " + y.T + ")"}
		case token.QUO:
			return Val{K: KFloat, Ty: rt, T: "(fp.div RNE " + x.T + " " + y.T + ")"}
		case token.EQL:
			return bop("fp.eq")
		case token.NEQ:
			return Val{K: KBool, Ty: rt, T: "(not (fp.eq " + x.T + " " + y.T + "))"}
		case token.LSS:
			return bop("fp.lt")
		case token.LEQ:
			return bop("fp.leq")
		case token.GTR:
			return bop("fp.gt")
		case token.GEQ:
			return bop("fp.geq")
		}
	case KStr:
		e.declStrFuns()
		switch op {
		case token.ADD:
			r := "(strcat " + x.T + " " + y.T + ")"
			st.assume(eq("(strlen "+r+")", "(bvadd "+e.strlen(st, x.T)+" "+e.strlen(st, y.T)+")"))
			if sx, ok := e.litOf(x.T); ok {
				if sy, ok := e.litOf(y.T); ok {
					return e.strLit(sx+sy, rt)
				}
				if sx == "" {
					return Val{K: KStr, Ty: rt, T: y.T}
				}
			}
			if sy, ok := e.litOf(y.T); ok && sy == "" {
				return Val{K: KStr, Ty: rt, T: x.T}
			}
			return Val{K: KStr, Ty: rt, T: r}
		case token.EQL:
			return Val{K: KBool, Ty: rt, T: eq(x.T, y.T)}
		case token.NEQ:
			return Val{K: KBool, Ty: rt, T: not(eq(x.T, y.T))}
		case token.LSS:
			return Val{K: KBool, Ty: rt, T: "(strlt " + x.T + " " + y.T + ")"}
		case token.GTR:
			return Val{K: KBool, Ty: rt, T: "(strlt " + y.T + " " + x.T + ")"}
		case token.LEQ:
			return Val{K: KBool, Ty: rt, T: or("(strlt "+x.T+" "+y.T+")", eq(x.T, y.T))}
		case token.GEQ:
			return Val{K: KBool, Ty: rt, T: or("(strlt "+y.T+" "+x.T+")", eq(x.T, y.T))}
		}
	case KBool:
		switch op {
		case token.EQL:
			return Val{K: KBool, Ty: rt, T: eq(x.T, y.T)}
		case token.NEQ:
			return Val{K: KBool, Ty: rt, T: not(eq(x.T, y.T))}
		case token.AND, token.LAND:
			return Val{K: KBool, Ty: rt, T: and(x.T, y.T)}
		case token.OR, token.LOR:
			return Val{K: KBool, Ty: rt, T: or(x.T, y.T)}
		}
	case KPtr, KMap, KOpaque:
		if x.K == KAddr || y.K == KAddr {
			break
		}
		switch op {
		case token.EQL:
			return Val{K: KBool, Ty: rt, T: eq(x.T, y.T)}
		case token.NEQ:
			return Val{K: KBool, Ty: rt, T: not(eq(x.T, y.T))}
		}
	case KSlice: // only comparison with nil
		other := y
		me := x
		if x.T == "0" && y.T != "0" {
			me, other = y, x
		}
		_ = other
		switch op {
		case token.EQL:
			return Val{K: KBool, Ty: rt, T: eq(me.T, "0")}
		case token.NEQ:
			return Val{K: KBool, Ty: rt, T: not(eq(me.T, "0"))}
		}
	case KFunc:
		me := x
		if x.Fn == nil && x.T == "0" {
			me = y
		}
		isNil := "false"
		if me.Fn == nil {
			if me.T == "" {
				isNil = e.fresh("fnnil", "Bool")
			} else {
				isNil = eq(me.T, "0")
			}
		}
		switch op {
		case token.EQL:
			return Val{K: KBool, Ty: rt, T: isNil}
		case token.NEQ:
			return Val{K: KBool, Ty: rt, T: not(isNil)}
		}
	case KIface:
		if x.K == KIface && y.K == KIface {
			// equal tags and payloads; boxed payloads compare by box identity (over-approximate)
			same := and(eq(x.X[0], y.X[0]), eq(x.T, y.T))
			var t string
			if x.X[0] == "0" || y.X[0] == "0" { // comparison with nil
				other := x
				if x.X[0] == "0" {
					other = y
				}
				t = eq(other.X[0], "0")
			} else {
				u := e.fresh("ifeq", "Bool")
				// pointer-like payloads: exact; boxed: unknown when tags equal
				t = and(eq(x.X[0], y.X[0]), or(eq(x.T, y.T), u))
				_ = same
			}
			switch op {
			case token.EQL:
				return Val{K: KBool, Ty: rt, T: t}
			case token.NEQ:
				return Val{K: KBool, Ty: rt, T: not(t)}
			}
		}
	}
	return e.freshVal(st, "binop", rt)
}

func (e *Engine) litOf(t string) (string, bool) {
	if t == "" || t[0] < '0' || t[0] > '9' {
		return "", false
	}
	var id int
	if _, err := fmt.Sscanf(t, "%d", &id); err != nil || fmt.Sprint(id) != t {
		return "", false
	}
	e.P.reg.mu.Lock()
	defer e.P.reg.mu.Unlock()
	if id < len(e.P.reg.strList) {
		return e.P.reg.strList[id], true
	}
	return "", false
}

func (e *Engine) convert(st *State, v Val, from, to types.Type) Val {
	fk, tk := kindOf(from), kindOf(to)
	switch {
	case fk == KInt && tk == KInt:
		fw, fs := intInfo(from)
		tw, _ := intInfo(to)
		switch {
		case fw == tw:
			return Val{K: KInt, Ty: to, T: v.T}
		case fw > tw:
			return Val{K: KInt, Ty: to, T: fmt.Sprintf("((_ extract %d 0) %s)", tw-1, v.T)}
		case fs:
			return Val{K: KInt, Ty: to, T: fmt.Sprintf("((_ sign_extend %d) %s)", tw-fw, v.T)}
		default:
			return Val{K: KInt, Ty: to, T: fmt.Sprintf("((_ zero_extend %d) %s)", tw-fw, v.T)}
		}
	case fk == KInt && tk == KFloat:
		_, fs := intInfo(from)
		if fs {
			return Val{K: KFloat, Ty: to, T: "((_ to_fp 11 53) RNE " + v.T + ")"}
		}
		return Val{K: KFloat, Ty: to, T: "((_ to_fp_unsigned 11 53) RNE " + v.T + ")"}
	case fk == KFloat && tk == KInt:
		tw, ts := intInfo(to)
		// out-of-range conversions are implementation-defined but deterministic: an
		// uninterpreted function of the operand, pinned to fp.to_sbv inside the int64 range
		fnm := fmt.Sprintf("f2i.%d.%v", tw, ts)
		e.declFun(fnm, "(Float64) "+bvSort(tw))
		r := "(" + fnm + " " + v.T + ")"
		if ts && tw == 64 {
			inr := "(and (fp.lt " + v.T + " " + fpLit(9223372036854775808.0) + ") (fp.geq " + v.T + " " + fpLit(-9223372036854775808.0) + "))"
			st.assume(implies(inr, eq(r, "((_ fp.to_sbv 64) RTZ "+v.T+")")))
			e.softs = append(e.softs, inr)
		}
		return Val{K: KInt, Ty: to, T: r}
	case fk == KFloat && tk == KFloat:
		return Val{K: KFloat, Ty: to, T: v.T}
	case fk == KStr && tk == KStr:
		return Val{K: KStr, Ty: to, T: v.T}
	case fk == KStr && tk == KSlice:
		// []byte(s) / []rune(s): fresh backing array, length known for bytes
		r := e.alloc(st, types.Typ[types.Int], false)
		ln := e.fresh("conv.len", bvSort(64))
		et := to.Underlying().(*types.Slice).Elem()
		if w, _ := intInfo(et); w == 8 {
			st.assume(eq(ln, e.strlen(st, v.T)))
			// element facts: bytes equal strat
			e.declFun("bytesof", "(Int) (Array (_ BitVec 64) (_ BitVec 8))")
			key := e.elemKey(et, 0)
			arr := e.heapGet(st, key, "(Array Int (Array (_ BitVec 64) (_ BitVec 8)))")
			st.heap[key] = sto(arr, r, "(bytesof "+v.T+")")
		} else {
			st.assume("(and (bvsge " + ln + " #x0000000000000000) (bvsle " + ln + " " + e.strlen(st, v.T) + "))")
		}
		return Val{K: KSlice, Ty: to, T: r, X: []string{bvLit(0, 64), ln, ln}}
	case fk == KSlice && tk == KStr:
		e.declStrFuns()
		r := e.fresh("str", "Int")
		et := from.Underlying().(*types.Slice).Elem()
		if w, _ := intInfo(et); w == 8 && v.K == KSlice {
			st.assume(eq("(strlen "+r+")", v.X[1]))
		}
		return Val{K: KStr, Ty: to, T: r}
	case fk == KInt && tk == KStr:
		e.declStrFuns()
		e.declFun("runestr", "((_ BitVec 64)) Int")
		r := "(runestr " + e.toInt64(v, from) + ")"
		st.assume("(and (bvsge (strlen " + r + ") #x0000000000000001) (bvsle (strlen " + r + ") #x0000000000000004))")
		return Val{K: KStr, Ty: to, T: r}
	case fk == tk && (fk == KPtr || fk == KSlice || fk == KMap || fk == KOpaque || fk == KBool):
		v.Ty = to
		return v
	}
	return e.freshVal(st, "conv", to)
}

// coerce converts untyped spec literals / widths to match `like`.
func (e *Engine) coerce(v, like Val) Val {
	if v.K == KInt && like.K == KInt && v.Ty == nil && like.Ty != nil {
		w, _ := intInfo(like.Ty)
		return e.retypeLit(v, like.Ty, w)
	}
	return v
}

func (e *Engine) retypeLit(v Val, t types.Type, w int) Val {
	// untyped int literal: T holds decimal text prefixed by "lit:"
	if strings.HasPrefix(v.T, "lit:") {
		var i int64
		var u uint64
		s := v.T[4:]
		if _, err := fmt.Sscanf(s, "%d", &i); err == nil && fmt.Sprint(i) == s {
			return Val{K: KInt, Ty: t, T: bvLit(uint64(i), w)}
		}
		fmt.Sscanf(s, "%d", &u)
		return Val{K: KInt, Ty: t, T: bvLit(u, w)}
	}
	return Val{K: KInt, Ty: t, T: v.T}
}


// assumeTypeInv: objects allocated before entry satisfy their declared type invariant in the
// entry heap (an explicit, listed precondition on the input heap; instantiated at each use).
func (e *Engine) assumeTypeInv(st *State, t types.Type, addr string) {
	if e.noTypeInv {
		return
	}
	n, ok := t.(*types.Named)
	if !ok {
		return
	}
	invs := e.P.specs.TypeInvs[shortTypeName(typeName(n))]
	if full := typeName(n); full != shortTypeName(full) {
		// an invariant declared with the full package path applies to exactly that type
		var keep []*TypeInv
		for _, ti := range invs {
			if !strings.Contains(ti.Type, "/") {
				keep = append(keep, ti)
			}
		}
		invs = append(keep, e.P.specs.TypeInvs[full]...)
	}
	if len(invs) == 0 {
		return
	}
	key := "typeinv:" + typeName(n) + ":" + addr
	if st.facts[key] {
		return
	}
	st.facts[key] = true
	for _, ti := range invs {
		env := &SpecEnv{vars: map[string]Val{"self": {K: KPtr, Ty: types.NewPointer(t), T: addr}}, pkg: e.P.typesPkg(ti.Pkg)}
		e.usedTypeInvs[ti.Type+": "+ti.Text] = true
		save := e.noTypeInv
		e.noTypeInv = true
		scr := e.entry.clone()
		npc := len(scr.pc)
		g := e.evalSpecBool(scr, scr, ti.Expr, env)
		e.noTypeInv = save
		for _, f := range scr.pc[npc:] {
			st.assume(f)
		}
		st.assume(implies(fmt.Sprintf("(and (> %s 0) (< %s %s))", addr, addr, e.entry.A.term()), g))
	}
}
