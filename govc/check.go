package main

// govc check <property> [--tier quick|thorough]: the registered check command.

import (
	"context"
	"encoding/json"
	"fmt"
	"os"
	"path/filepath"
	"regexp"
	"sort"
	"strconv"
	"strings"
	"sync"
	"time"

	"golang.org/x/tools/go/ssa"
)

type KnownFinding struct {
	Property    string `json:"property"`
	Obligation  string `json:"obligation"`
	Except      string `json:"except,omitempty"` // spec expression over the function's inputs: the failing inputs already recorded
	Description string `json:"description"`
	Status      string `json:"status"` // open | fixed
	Commit      string `json:"commit,omitempty"`
	Replay      string `json:"replay,omitempty"`
}

type KnownFile struct {
	Findings []KnownFinding `json:"findings"`
	Fixed    []string       `json:"fixed"`
}

func verifDir() string {
	if d := os.Getenv("GOVC_VERIF"); d != "" {
		return d
	}
	exe, err := os.Executable()
	if err == nil {
		d := filepath.Dir(filepath.Dir(exe))
		if _, err := os.Stat(filepath.Join(d, "properties.jsonl")); err == nil {
			return d
		}
	}
	return "/verif"
}

func loadKnown() *KnownFile {
	kf := &KnownFile{}
	data, err := os.ReadFile(filepath.Join(verifDir(), "known_findings.json"))
	if err == nil {
		json.Unmarshal(data, kf)
	}
	return kf
}

// Result of one obligation after known-finding processing.
type OblResult struct {
	Name, Kind, Fn, Text, Status, Backend, Where string
	Secs                                         float64
	Props                                        []string
	Known                                        *KnownFinding
	KnownStill                                   bool
	Model                                        map[string]string
	Raw                                          string
	Eng                                          *Engine
	Obl                                          *Obl
}

type Report struct {
	Covers     int
	Prop       string
	Tier       string
	Seed       int
	Results    []*OblResult
	Funcs      []string
	Trusted    map[string]bool
	Assume     map[string]bool
	Notes      []string
	Unproved   []string // not claimed (baseline-unproved sweep obligations)
	Partial    []string // sweep units whose exploration hit the tier's path budget
	NowProved  []string // baseline-unproved obligations that discharged in this (thorough) run
	Broken     []string
	Extra      map[string]interface{}
	SolverSecs float64
	mu         sync.Mutex
}

func (r *Report) add(o *OblResult) {
	r.mu.Lock()
	r.Results = append(r.Results, o)
	r.mu.Unlock()
}

var propRe = regexp.MustCompile(`C[0-9]{2,3}`)

// packagesForProperty scans the contract files textually for the property id.
func packagesForProperty(root, id string) []string {
	var pats []string
	seen := map[string]bool{}
	filepath.Walk(root, func(p string, info os.FileInfo, err error) error {
		if err != nil {
			return nil
		}
		if info.IsDir() && info.Name() == ".git" {
			return filepath.SkipDir
		}
		if !info.IsDir() && strings.HasPrefix(info.Name(), "zz_verif_contracts") && strings.HasSuffix(info.Name(), ".go") {
			data, _ := os.ReadFile(p)
			for _, line := range strings.Split(string(data), "\n") {
				if (strings.Contains(line, "//@") || strings.Contains(line, "// @")) && strings.Contains(line, id) {
					rel, _ := filepath.Rel(root, filepath.Dir(p))
					pat := "./" + filepath.ToSlash(rel)
					if !seen[pat] {
						seen[pat] = true
						pats = append(pats, pat)
					}
					break
				}
			}
		}
		return nil
	})
	sort.Strings(pats)
	return pats
}

func hasProp(props []string, id string) bool {
	for _, p := range props {
		if p == id {
			return true
		}
	}
	return false
}

func contractServes(c *Contract, id string) bool {
	if hasProp(c.Props, id) {
		return true
	}
	for _, cl := range c.Clauses {
		if hasProp(cl.Props, id) {
			return true
		}
	}
	return false
}

func cmdCheck(args []string) int {
	id := ""
	tier := os.Getenv("VERIF_TIER")
	for i := 0; i < len(args); i++ {
		switch args[i] {
		case "--tier":
			i++
			tier = args[i]
		default:
			id = args[i]
		}
	}
	if tier == "" {
		tier = "quick"
	}
	quickTier = tier == "quick"
	seed, _ := strconv.Atoi(os.Getenv("VERIF_SEED"))
	if id == "" {
		fmt.Fprintln(os.Stderr, "usage: govc check <property>")
		return 2
	}
	t0 := time.Now()
	root := repoRoot()
	rep := &Report{Prop: id, Tier: tier, Seed: seed, Trusted: map[string]bool{}, Assume: map[string]bool{}, Extra: map[string]interface{}{}}
	pats := packagesForProperty(root, id)
	for _, extra := range extraPackages[id] {
		found := false
		for _, p := range pats {
			if p == extra {
				found = true
			}
		}
		if !found {
			pats = append(pats, extra)
		}
	}
	if len(pats) == 0 && len(analyses[id]) == 0 {
		fmt.Printf("BROKEN: no contract file mentions %s\n", id)
		return 2
	}
	// the whole module is loaded: closed-world reasoning (implementers, write sites, call graph)
	// needs every package
	pats = []string{"./..."}
	P, err := loadProgram(root, pats)
	if err != nil {
		// a tree that does not compile is not a property violation; report as broken
		fmt.Printf("BROKEN: cannot load %v: %v\n", pats, err)
		return 2
	}
	known := loadKnown()
	cfg := SolverCfg{fastTimeoutMs: 3000, slowTimeoutS: 25, seed: seed}
	if tier == "thorough" {
		cfg.fastTimeoutMs, cfg.slowTimeoutS = 20000, 120
	}
	// contracts serving this property
	var units []*Contract
	for _, key := range sortedKeys(P.specs.ByKey) {
		c := P.specs.ByKey[key]
		if c.Extern || strings.HasPrefix(c.Key, "iface ") {
			continue
		}
		if contractServes(c, id) {
			if only := os.Getenv("GOVC_ONLY"); only != "" && !strings.Contains(c.Key, only) {
				continue // development aid: the run is reported as partial below
			}
			units = append(units, c)
		}
	}
	var wg sync.WaitGroup
	sem := make(chan struct{}, 16)
	for _, c := range units {
		fn := P.findFunc(c.Pkg, c.Key)
		if fn == nil {
			rep.add(&OblResult{Name: strings.TrimPrefix(c.Pkg, falcoMod+"/") + "." + c.Key + "#bind", Kind: "bind", Status: "failed",
				Text: "function under contract no longer exists (the mechanism the property relies on was removed or renamed)", Props: []string{id}})
			continue
		}
		wg.Add(1)
		sem <- struct{}{}
		go func(c *Contract, fn *ssa.Function) {
			defer wg.Done()
			defer func() { <-sem }()
			runUnit(P, rep, c, fn, id, known, cfg)
		}(c, fn)
	}
	wg.Wait()
	// `callers` clauses: package-wide call-site check (K5)
	for _, c := range units {
		for _, cl := range c.get("callers") {
			if !hasProp(cl.Props, id) {
				continue
			}
			target := P.findFunc(c.Pkg, c.Key)
			if target == nil {
				continue
			}
			allowed := map[string]bool{}
			for _, a := range cl.Args {
				allowed[a] = true
			}
			found := map[string]bool{}
			for fn := range P.allFuncs {
				if !inFalco(fn) || fn.Blocks == nil {
					continue
				}
				for _, b := range fn.Blocks {
					for _, ins := range b.Instrs {
						uses := false
						if call, ok := ins.(ssa.CallInstruction); ok && call.Common().StaticCallee() == target {
							uses = true
						}
						var ops []*ssa.Value
						for _, op := range ins.Operands(ops) {
							if op != nil && *op == ssa.Value(target) {
								uses = true
							}
						}
						if uses && fn != target {
							found[fn.Name()] = true
						}
					}
				}
			}
			for caller := range found {
				st := "unsat"
				ok := allowed[caller]
				for a := range allowed {
					if strings.HasSuffix(a, "*") && strings.HasPrefix(caller, strings.TrimSuffix(a, "*")) {
						ok = true
					}
				}
				if !ok {
					st = "failed"
				}
				rep.add(&OblResult{Name: fmt.Sprintf("%s#callers:%s", shortFn(target), caller), Kind: "K5", Status: st, Backend: "call-site scan (no solver)",
					Text: "only " + strings.Join(cl.Args, ", ") + " may call " + target.Name(), Props: cl.Props, Fn: shortFn(target)})
			}
		}
	}
	// `extern-callers NAME... : FN...`: only the listed functions of the module call the named functions of
	// other modules (full names such as os.Rename), K5, from a call-site scan over the PACKAGE of the function that carries the clause
	for _, c := range units {
		for _, cl := range c.get("extern-callers") {
			if !hasProp(cl.Props, id) {
				continue
			}
			names := map[string]bool{}
			allowed := map[string]bool{}
			seenSep := false
			for _, a := range cl.Args {
				switch {
				case a == ":":
					seenSep = true
				case seenSep:
					allowed[a] = true
				default:
					names[a] = true
				}
			}
			if !seenSep || len(names) == 0 {
				rep.add(&OblResult{Name: c.Key + "#extern-callers", Kind: "K5", Status: "failed", Text: "SPEC ERROR: extern-callers NAME... : FN...", Props: cl.Props})
				continue
			}
			type hit struct{ callee, caller string }
			found := map[hit]*ssa.Function{}
			for fn := range P.allFuncs {
				if !inFalco(fn) || fn.Blocks == nil || fn.Pkg == nil || fn.Pkg.Pkg.Path() != c.Pkg {
					continue // (the scan is about the package of the function that carries the clause)
				}
				for _, b := range fn.Blocks {
					for _, ins := range b.Instrs {
						var ops []*ssa.Value
						for _, op := range ins.Operands(ops) {
							if op == nil || *op == nil {
								continue
							}
							if f, ok := (*op).(*ssa.Function); ok && names[f.String()] {
								found[hit{f.String(), fn.Name()}] = fn
							}
						}
					}
				}
			}
			rep.add(&OblResult{Name: fmt.Sprintf("%s#extern-callers:%s", c.Key, strings.Join(cl.Args, " ")), Kind: "K5", Status: "unsat", Backend: "call-site scan (no solver)",
				Text: fmt.Sprintf("scan ran: %d using functions found", len(found)), Props: cl.Props, Fn: c.Key})
			for h, fn := range found {
				if allowed[h.caller] {
					continue
				}
				rep.add(&OblResult{Name: fmt.Sprintf("%s#extern-callers:%s", h.callee, shortFn(fn)), Kind: "K5", Status: "failed", Backend: "call-site scan (no solver)",
					Text: "only " + strings.Join(cl.Args, " ") + " (" + shortFn(fn) + " uses " + h.callee + ")", Props: cl.Props, Fn: shortFn(fn)})
			}
		}
	}
	// `only-writers KEY... : FN...`: only the listed functions contain an instruction that writes a heap
	// array whose key contains one of the KEYs (K5, from the direct write-site scan)
	for _, c := range units {
		for _, cl := range c.get("only-writers") {
			if !hasProp(cl.Props, id) {
				continue
			}
			var keys []string
			allowed := map[string]bool{}
			seenSep := false
			nfound := 0
			for _, a := range cl.Args {
				switch {
				case a == ":":
					seenSep = true
				case seenSep:
					allowed[a] = true
				default:
					keys = append(keys, a)
				}
			}
			if allowed["none"] {
				nfound++
			}
			if !seenSep || len(keys) == 0 {
				rep.add(&OblResult{Name: c.Key + "#only-writers", Kind: "K5", Status: "failed", Text: "SPEC ERROR: only-writers KEY... : FN...", Props: cl.Props})
				continue
			}
			for fn := range P.allFuncs {
				if !inFalco(fn) || fn.Blocks == nil {
					continue
				}
				d := P.directEffect(fn)
				hit := ""
				if d.All {
					hit = "<anything>"
				}
				for k := range d.Keys {
					for _, want := range keys {
						if strings.Contains(k, want) {
							hit = k
						}
					}
				}
				if hit == "<anything>" && (fn.Pkg == nil || fn.Pkg.Pkg.Path() != c.Pkg) {
					hit = "" // an untyped store in another package cannot name this package's unexported fields
				}
				if hit == "" {
					continue
				}
				nfound++
				stt := "unsat"
				ok := allowed[fn.Name()]
				for a := range allowed {
					// `name*`: the function and its closures; `pkg:rel/path`: every function of that package
					if strings.HasSuffix(a, "*") && strings.HasPrefix(fn.Name(), strings.TrimSuffix(a, "*")) {
						ok = true
					}
					if strings.HasPrefix(a, "pkg:") && fn.Pkg != nil && fn.Pkg.Pkg.Path() == falcoMod+"/"+strings.TrimPrefix(a, "pkg:") {
						ok = true
					}
				}
				if !ok {
					stt = "failed"
				}
				rep.add(&OblResult{Name: fmt.Sprintf("%s#only-writers:%s", strings.Join(keys, ","), shortFn(fn)), Kind: "K5", Status: stt, Backend: "write-site scan (no solver)",
					Text: "only " + strings.Join(cl.Args, " ") + " (writes " + hit + ")", Props: cl.Props, Fn: shortFn(fn)})
			}
			if nfound == 0 {
				rep.add(&OblResult{Name: strings.Join(keys, ",") + "#only-writers", Kind: "K5", Status: "failed", Text: "SPEC ERROR: no writer found at all (key misspelt?)", Props: cl.Props})
			}
		}
	}
	// property-specific analyses
	for _, a := range analyses[id] {
		a(P, rep, known, cfg)
	}
	if os.Getenv("GOVC_ONLY") != "" {
		finishReport(P, rep, known, t0)
		fmt.Println("PARTIAL RUN (GOVC_ONLY): not a verdict")
		return 2
	}
	return finishReport(P, rep, known, t0)
}

var extraPackages = map[string][]string{}

type analysisFn func(P *Program, rep *Report, known *KnownFile, cfg SolverCfg)

var analyses = map[string][]analysisFn{}

func runUnit(P *Program, rep *Report, c *Contract, fn *ssa.Function, id string, known *KnownFile, cfg SolverCfg) {
	safe := false
	for _, cl := range c.get("safe") {
		if hasProp(cl.Props, id) {
			safe = true
		}
	}
	tU := time.Now()
	e := verifyFunction(P, fn, c, safe, []string{id})
	if os.Getenv("GOVC_TIMES") != "" {
		defer func() {
			fmt.Fprintf(os.Stderr, "unit %-60s exec=%.1fs total=%.1fs paths=%d\n", shortFn(fn), e.secs, time.Since(tU).Seconds(), e.paths)
		}()
	}
	rep.mu.Lock()
	rep.Funcs = append(rep.Funcs, shortFn(fn))
	for k := range e.usedExterns {
		rep.Trusted["extern: "+k] = true
	}
	for k := range e.havocCalls {
		rep.Assume["callee without contract, havocked (sound): "+k] = true
	}
	for k := range e.visibilityFrames {
		rep.Assume["visibility frame: "+k+" (other package, no contract) cannot write struct fields of the verified function's package and does not call back into it"] = true
	}
	for k := range e.uncheckedAssumes {
		rep.Assume["UNCHECKED assumption written in the contract (ownership/separation): "+k] = true
	}
	for k := range e.usedTypeInvs {
		rep.Assume["type invariant assumed on every object allocated before entry (wf of inputs): "+k] = true
	}
	for _, n := range e.notes {
		rep.Notes = append(rep.Notes, shortFn(fn)+": "+n)
	}
	if e.inductive != "" {
		rep.Assume["contract of "+shortFn(fn)+" is NOT proved from its body: it is a reflexive, transitive two-state relation (both discharged) justified by induction over the call graph, whose remaining side conditions are the only-writers / callers scans (K5) of this property: "+e.inductive] = true
	}
	rep.mu.Unlock()
	if e.aborted != "" && c.FromTemplate && strings.HasPrefix(e.aborted, "path budget") {
		// a sweep unit that is too large for this tier: the obligations met on the explored paths are
		// still discharged; the unit is listed as partially explored (nothing about the rest is claimed)
		rep.mu.Lock()
		rep.Partial = append(rep.Partial, shortFn(fn)+" ("+e.aborted+")")
		rep.mu.Unlock()
		e.aborted = ""
		e.specErrors = nil // (evaluation was cut short by the abort)
	}
	if e.aborted != "" {
		rep.add(&OblResult{Name: shortFn(fn) + "#engine", Kind: "engine", Status: "failed", Text: "symbolic execution aborted: " + e.aborted, Props: []string{id}, Fn: shortFn(fn)})
		return
	}
	if len(e.specErrors) > 0 {
		rep.mu.Lock()
		rep.Broken = append(rep.Broken, shortFn(fn)+": "+strings.Join(e.specErrors, "; "))
		rep.mu.Unlock()
	}
	// vacuity: the precondition must be satisfiable
	if len(c.get("requires")) > 0 {
		if !e.coverEntry(cfg) {
			rep.mu.Lock()
			rep.Broken = append(rep.Broken, shortFn(fn)+": precondition is unsatisfiable (vacuous contract)")
			rep.mu.Unlock()
		}
	}
	// vacuity: every return statement of a function under an explicit contract must be reachable
	// under the assumptions made on the way (contracts of callees, invariants); an unreachable return
	// means contradictory assumptions and would make every obligation behind it pass trivially
	if !c.FromTemplate && e.inductive == "" {
		dead := e.coverReturns(cfg)
		rep.mu.Lock()
		rep.Covers += e.ncover
		for _, d := range dead {
			if !allowedDead(id, shortFn(fn)+" "+d) {
				rep.Broken = append(rep.Broken, shortFn(fn)+": no satisfiable path reaches the return at "+d+" (contradictory assumptions?)")
			}
		}
		rep.mu.Unlock()
	}
	// select obligations of this property; split known findings
	var mine []*Obl
	var derived []*Obl
	knownOf := map[string]*KnownFinding{}
	for _, n := range e.oblOrder {
		o := e.obls[n]
		if !hasProp(o.Props, id) {
			continue
		}
		var kf *KnownFinding
		for i := range known.Findings {
			f := &known.Findings[i]
			if f.Obligation == o.Name && f.Status != "fixed" && f.Property == id {
				kf = f
			}
		}
		if kf != nil && kf.Except != "" {
			if d := e.splitKnown(o, kf); d != nil {
				derived = append(derived, d)
				knownOf[d.Name] = kf
			}
		}
		if kf != nil {
			knownOf[o.Name] = kf
		}
		mine = append(mine, o)
	}
	// discharge only what we need; obligations recorded as unproved on the pinned tree are not
	// claimed and therefore not even attempted (they are listed in the evidence)
	unproved := loadUnproved(id)
	keep := map[string]bool{}
	retry := map[string]bool{}
	for _, o := range mine {
		if unproved[o.Name] && os.Getenv("GOVC_BASELINE") == "" {
			if !quickTier {
				// thorough tier: the undecided obligations are attempted again (longer time-outs); one
				// that discharges now is reported as such, one that does not stays "unproved, not claimed"
				retry[o.Name] = true
				keep[o.Name] = true
				continue
			}
			rep.mu.Lock()
			rep.Unproved = append(rep.Unproved, o.Name)
			rep.mu.Unlock()
			continue
		}
		keep[o.Name] = true
	}
	var order []string
	for _, n := range e.oblOrder {
		if keep[n] {
			order = append(order, n)
		}
	}
	for _, d := range derived {
		e.obls[d.Name] = d
		order = append(order, d.Name)
	}
	e.oblOrder = order
	e.discharge(cfg)
	if os.Getenv("GOVC_TIMES") != "" {
		for _, n := range e.oblOrder {
			if o := e.obls[n]; o.Secs > 6 && !strings.Contains(o.Backend, "incremental") {
				fmt.Fprintf(os.Stderr, "slowobl %.1fs %s %s\n", o.Secs, o.Backend, o.Name)
			}
		}
	}
	for _, n := range e.oblOrder {
		o := e.obls[n]
		if retry[o.Name] {
			rep.mu.Lock()
			if o.Status == "unsat" {
				rep.NowProved = append(rep.NowProved, o.Name)
			} else {
				rep.Unproved = append(rep.Unproved, o.Name)
			}
			rep.mu.Unlock()
			continue
		}
		r := &OblResult{Name: o.Name, Kind: o.Kind, Fn: shortFn(fn), Text: o.Text, Status: o.Status, Backend: o.Backend, Secs: o.Secs, Props: o.Props, Eng: e, Obl: o, Raw: o.Model}
		for _, cs := range o.Cases {
			if cs.Goal != "true" {
				r.Where = cs.Where
				break
			}
		}
		if o.Status == "sat" {
			r.Model = map[string]string{}
			vals := parseGetValue(o.Model)
			for _, m := range e.modelTerms {
				if v, ok := vals[normTerm(m.term)]; ok {
					r.Model[m.name] = v
				}
			}
		}
		r.Known = knownOf[o.Name]
		rep.add(r)
	}
}

// coverReturns checks that each return site has a satisfiable path; returns the dead sites.
func (e *Engine) coverReturns(cfg SolverCfg) []string {
	var dead []string
	var keys []string
	for k := range e.covers {
		keys = append(keys, k)
	}
	sort.Strings(keys)
	var loopKeys, retKeys []string
	for _, k := range keys {
		if strings.HasPrefix(k, "loop") {
			loopKeys = append(loopKeys, k)
		} else {
			retKeys = append(retKeys, k)
		}
	}
	if len(retKeys) > 8 { // evenly spaced sample of the return sites
		var sm []string
		for i := 0; i < 8; i++ {
			sm = append(sm, retKeys[i*len(retKeys)/8])
		}
		retKeys = sm
	}
	if len(loopKeys) > 12 {
		loopKeys = loopKeys[:12]
	}
	keys = append(retKeys, loopKeys...)
	for _, k := range keys {
		ok := false
		// one query: the disjunction of (a sample of) the path conditions reaching this return
		pcs := e.covers[k]
		if len(pcs) > 24 {
			var sm [][]string
			for i := 0; i < 24; i++ {
				sm = append(sm, pcs[i*len(pcs)/24])
			}
			pcs = sm
		}
		if os.Getenv("GOVC_COVERALL") != "" || (e.con != nil && e.con.Lemma) {
			pcs = e.covers[k] // lemma functions have one return and mostly infeasible path pairs
		}
		var ds []string
		for _, pc := range pcs {
			ds = append(ds, and(pc...))
		}
		body := or(ds...)
		q := "(set-option :timeout 4000)\n" + e.usedDecls(body+e.axiomText()) + e.axiomText() + "(assert " + body + ")\n(check-sat)\n"
		ctx, cancel := context.WithTimeout(context.Background(), 20*time.Second)
		solverSem <- struct{}{}
		out, _ := runSolver(ctx, "z3-new", []string{"-in"}, q)
		<-solverSem
		cancel()
		if fl := firstLine(out); fl != "unsat" {
			ok = true
		}
		e.ncover++
		if !ok {
			dead = append(dead, k)
		}
	}
	return dead
}

func allowedDead(id, key string) bool {
	data, err := os.ReadFile(filepath.Join(verifDir(), "dead_returns.txt"))
	if err != nil {
		return false
	}
	for _, l := range strings.Split(string(data), "\n") {
		if strings.TrimSpace(l) == key {
			return true
		}
	}
	return false
}

// coverEntry: is the entry path condition (after `requires`) satisfiable?
func (e *Engine) coverEntry(cfg SolverCfg) bool {
	o := &Obl{Name: "cover", Cases: []OblCase{{PC: e.entry.pc, Goal: "false"}}}
	e.portfolioQuick(o, cfg)
	return o.Status == "sat" || o.Status == "unknown" || o.Status == "timeout"
}

func (e *Engine) portfolioQuick(o *Obl, cfg SolverCfg) {
	c := cfg
	c.slowTimeoutS = 10
	e.portfolio(o, c)
}

// splitKnown: for obligation o with a recorded finding K, build the obligation "¬K ⟹ goal"
// (must discharge: any other failing input is a new violation). The original o stays, and its
// failure is reported as KNOWN-FINDING.
func (e *Engine) splitKnown(o *Obl, kf *KnownFinding) *Obl {
	x, err := parseSpecExpr(kf.Except)
	if err != nil {
		e.specErr("known finding %q: %v", kf.Obligation, err)
		return nil
	}
	env := e.rootEnv(e.entry, nil)
	env.fr = nil
	scratch := e.entry.clone()
	k := e.evalSpecBool(scratch, scratch, x, env)
	d := &Obl{Name: o.Name + " [outside known finding]", Kind: o.Kind, Props: o.Props, Fn: o.Fn, Text: o.Text + "   (inputs other than: " + kf.Except + ")"}
	for _, c := range o.Cases {
		if c.Goal == "true" {
			continue
		}
		pc := append(append([]string{}, c.PC...), scratch.pc[len(e.entry.pc):]...)
		pc = append(pc, not(k))
		d.Cases = append(d.Cases, OblCase{PC: pc, Goal: c.Goal, Where: c.Where})
	}
	return d
}

func finishReport(P *Program, rep *Report, known *KnownFile, t0 time.Time) int {
	id := rep.Prop
	sort.Slice(rep.Results, func(i, j int) bool { return rep.Results[i].Name < rep.Results[j].Name })
	unproved := loadUnproved(id)
	var violations []*OblResult
	obligations, discharged := 0, 0
	backends := map[string]int{}
	var samples []map[string]string
	knownPrinted := map[string]bool{}
	for _, r := range rep.Results {
		rep.SolverSecs += r.Secs
		if r.Known == nil && r.Kind == "K5" && known != nil {
			// scan results (call-site / write-site scans) are matched against the known findings here: the
			// name of such a result already identifies the one offending function
			for i := range known.Findings {
				if f := &known.Findings[i]; f.Obligation == r.Name && f.Property == id && f.Status != "fixed" {
					r.Known = f
				}
			}
		}
		if r.Known != nil && !strings.HasSuffix(r.Name, "[outside known finding]") {
			// the recorded finding itself: report while it still fails; never counts
			if r.Status != "unsat" {
				if !knownPrinted[r.Known.Obligation] {
					knownPrinted[r.Known.Obligation] = true
					fmt.Printf("KNOWN-FINDING: property=%s %s — %s\n", id, r.Known.Obligation, r.Known.Description)
				}
				if r.Known.Except == "" {
					continue
				}
				continue
			}
			// it no longer fails: counts as an ordinary discharged obligation
		}
		if unproved[r.Name] {
			if r.Status != "unsat" {
				rep.Unproved = append(rep.Unproved, r.Name)
				continue
			}
		}
		if r.Status == "error" {
			// malformed query: an engine defect, not a verdict about the code
			rep.Broken = append(rep.Broken, "solver rejected the query of "+r.Name+": "+firstLine(r.Raw))
			continue
		}
		obligations++
		if r.Status == "unsat" {
			discharged++
			backends[r.Backend]++
			if len(samples) < 6 && r.Backend != "syntactic" {
				samples = append(samples, map[string]string{"obligation": r.Name, "kind": r.Kind, "clause": r.Text, "backend": r.Backend})
			}
		} else {
			violations = append(violations, r)
		}
	}
	if len(samples) == 0 {
		for _, r := range rep.Results {
			if r.Status == "unsat" && len(samples) < 6 {
				samples = append(samples, map[string]string{"obligation": r.Name, "kind": r.Kind, "clause": r.Text, "backend": r.Backend})
			}
		}
	}
	if os.Getenv("GOVC_BASELINE") == "" && len(unproved) > 0 {
		// A harmless edit (renamed local, reordered statements) changes the NAME of an undischarged sweep
		// obligation, because the name quotes the source line. A baseline entry whose exact name no longer
		// occurs in this run (its line was edited away) may stand for ONE undischarged K1 obligation of the
		// same function and kind whose text has the same shape (identifiers blanked). An obligation added
		// while the old lines are still there finds no such orphan and is reported as before.
		present := map[string]bool{}
		for _, r := range rep.Results {
			present[r.Name] = true
		}
		for _, n := range rep.Unproved { // (quick tier: baseline obligations met on the way are listed, not attempted)
			present[n] = true
		}
		orphans := map[string]int{}
		for b := range unproved {
			if !present[b] {
				orphans[oblShape(b)]++
			}
		}
		partial := map[string]bool{} // (a unit cut off by the path budget has unexplored, not edited, lines)
		for _, pu := range rep.Partial {
			if k := strings.Index(pu, " ("); k >= 0 {
				pu = pu[:k]
			}
			partial[pu] = true
		}
		var keep []*OblResult
		for _, v := range violations {
			if sh := oblShape(v.Name); v.Kind == "K1" && orphans[sh] > 0 && !partial[v.Fn] {
				orphans[sh]--
				rep.Unproved = append(rep.Unproved, v.Name+"   (stands in for an edited line of the baseline: same function, kind and shape)")
				obligations--
				continue
			}
			keep = append(keep, v)
		}
		violations = keep
	}
	if os.Getenv("GOVC_BASELINE") != "" {
		// maintenance mode (never used by a registered command): record the obligations that do not
		// discharge on this tree as "unproved, not claimed"
		os.MkdirAll(filepath.Join(verifDir(), "unproved"), 0o755)
		names := map[string]bool{}
		for k := range unproved {
			names[k] = true
		}
		for _, v := range violations {
			if v.Kind == "K1" || os.Getenv("GOVC_BASELINE") == "all" {
				names[v.Name] = true
			}
		}
		var lines []string
		for k := range names {
			lines = append(lines, k)
		}
		sort.Strings(lines)
		hdr := "# Obligations of the " + id + " sweeps that the verifier cannot discharge on the pinned tree (undecided, NOT claimed).\n# One obligation name per line. Generated with GOVC_BASELINE=1 ./bin/govc check " + id + "; reviewed and committed; never written by a registered check.\n"
		os.WriteFile(filepath.Join(verifDir(), "unproved", id+".txt"), []byte(hdr+strings.Join(lines, "\n")+"\n"), 0o644)
		fmt.Printf("baseline: %d unproved obligations recorded for %s\n", len(lines), id)
		return 0
	}
	exit := 0
	// replay + VIOLATION lines
	os.MkdirAll(filepath.Join(verifDir(), "replays", id), 0o755)
	for _, v := range violations {
		path := writeReplay(P, rep, v)
		suffix := ""
		if !v.replayed() {
			suffix = " no-failing-input-found"
		}
		fmt.Printf("VIOLATION property=%s replay=%s%s\n", id, path, suffix)
		fmt.Printf("  obligation: %s [%s/%s] %s @%s\n", v.Name, v.Kind, v.Status, v.Text, v.Where)
		exit = 1
	}
	floor := loadFloor(id)
	if obligations < floor {
		rep.Broken = append(rep.Broken, fmt.Sprintf("only %d obligations generated, floor is %d (vacuity guard)", obligations, floor))
	}
	if obligations == 0 {
		rep.Broken = append(rep.Broken, "no obligations generated")
	}
	for _, b := range rep.Broken {
		fmt.Printf("BROKEN: %s\n", b)
	}
	if len(rep.Broken) > 0 && exit == 0 {
		exit = 2
	}
	writeEvidence(rep, obligations, discharged, backends, samples, len(violations), time.Since(t0).Seconds(), knownPrinted)
	fmt.Printf("%s %s: functions=%d obligations=%d discharged=%d violations=%d known-findings=%d unproved-not-claimed=%d wall=%.1fs solver=%.1fs\n",
		id, rep.Tier, len(rep.Funcs), obligations, discharged, len(violations), len(knownPrinted), len(rep.Unproved), time.Since(t0).Seconds(), rep.SolverSecs)
	return exit
}

func (r *OblResult) replayed() bool { return r.Extra("replayed") == "yes" }

var replayStatus sync.Map

func (r *OblResult) Extra(k string) string {
	if v, ok := replayStatus.Load(r.Name + "/" + k); ok {
		return v.(string)
	}
	return ""
}

var identRe = regexp.MustCompile(`[A-Za-z_][A-Za-z0-9_]*`)
var dupRe = regexp.MustCompile(` #\d+$`)

// oblShape: `<function>#<kind>:` kept, every identifier of the quoted source text blanked, the duplicate
// counter dropped, white space collapsed.
func oblShape(name string) string {
	i := strings.Index(name, "#")
	if i < 0 {
		return name
	}
	j := strings.Index(name[i:], ":")
	if j < 0 {
		return name
	}
	head, text := name[:i+j+1], name[i+j+1:]
	inl := ""
	if k := strings.Index(text, " @inl("); k >= 0 {
		text, inl = text[:k], text[k:]
	}
	text = dupRe.ReplaceAllString(text, "")
	text = identRe.ReplaceAllString(text, "_")
	return head + strings.Join(strings.Fields(text), " ") + inl
}

func loadUnproved(id string) map[string]bool {
	m := map[string]bool{}
	data, err := os.ReadFile(filepath.Join(verifDir(), "unproved", id+".txt"))
	if err != nil {
		return m
	}
	for _, l := range strings.Split(string(data), "\n") {
		l = strings.TrimRight(l, "\r")
		if l != "" && !strings.HasPrefix(l, "# ") {
			m[l] = true
		}
	}
	return m
}

func loadFloor(id string) int {
	data, err := os.ReadFile(filepath.Join(verifDir(), "floors.json"))
	if err != nil {
		return 1
	}
	m := map[string]int{}
	json.Unmarshal(data, &m)
	if v, ok := m[id]; ok {
		return v
	}
	return 1
}

func writeEvidence(rep *Report, obligations, discharged int, backends map[string]int, samples []map[string]string, nviol int, wall float64, knownPrinted map[string]bool) {
	var trusted []string
	trusted = append(trusted, "golang.org/x/tools v0.29.0 go/ssa construction (NaiveForm, InstantiateGenerics) and go/types",
		"govc symbolic semantics of SSA (exercised by the must-fail corpus /verif/selftest)",
		"SMT solvers z3 5.1.0, z3 4.8.12, cvc5 1.0.3",
		"Go memory safety; pointer values read from memory point to allocated objects",
		"closed-world dynamic dispatch over the implementers found in the falco module for interfaces declared in it")
	for _, k := range sortedKeys(rep.Trusted) {
		trusted = append(trusted, k)
	}
	assumptions := []string{}
	for _, k := range sortedKeys(rep.Assume) {
		assumptions = append(assumptions, k)
	}
	assumptions = append(assumptions, propertyAssumptions[rep.Prop]...)
	sort.Strings(rep.Funcs)
	kf := []string{}
	for k := range knownPrinted {
		kf = append(kf, k)
	}
	sort.Strings(kf)
	sort.Strings(rep.Unproved)
	cov := map[string]interface{}{
		"obligations":                              obligations,
		"discharged":                               discharged,
		"checker_cmd":                              fmt.Sprintf("./bin/govc check %s --tier %s", rep.Prop, rep.Tier),
		"trusted_base":                             trusted,
		"samples":                                  samples,
		"functions_under_contract":                 rep.Funcs,
		"functions_under_contract_n":               len(rep.Funcs),
		"discharged_by_backend":                    backends,
		"solver_seconds":                           rep.SolverSecs,
		"known_findings_still_present":             kf,
		"unproved_not_claimed":                     rep.Unproved,
		"partially_explored_sweep_units":           rep.Partial,
		"baseline_unproved_discharged_in_this_run": rep.NowProved,
		"cover_queries_reachable_returns":          rep.Covers,
		"integer_semantics":                        "Go integers are fixed-width bit-vectors with wrap-around (no mathematical-integer abstraction); float64 is SMT Float64 RNE",
		"notes":                                    rep.Notes,
	}
	for k, v := range rep.Extra {
		cov[k] = v
	}
	ev := map[string]interface{}{
		"property_id": rep.Prop,
		"tier":        rep.Tier,
		"seed":        rep.Seed,
		"level":       "proof",
		"coverage":    cov,
		"assumptions": assumptions,
		"wall_s":      wall,
		"violations":  nviol,
	}
	data, _ := json.MarshalIndent(ev, "", " ")
	os.MkdirAll(filepath.Join(verifDir(), "evidence"), 0o755)
	os.WriteFile(filepath.Join(verifDir(), "evidence", rep.Prop+".json"), data, 0o644)
}

var propertyAssumptions = map[string][]string{}
