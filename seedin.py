#!/usr/bin/env python3
"""seedin.py PROP OUTDIR K NAME TESTPKGS...: confirm a sub-agent's seeded change in a scratch copy of
/repo (patch applies, builds, existing tests of TESTPKGS pass, demo fails with it and passes
without) and store it as /verif/seeded/NAME/{patch.diff,demo_test.go,meta.json,README.md}."""
import sys, os, subprocess, tempfile, shutil, json, re
prop, outdir, k, name = sys.argv[1:5]
pkgs = sys.argv[5:]
src = os.path.join(outdir, k)
env = dict(os.environ, GOFLAGS="-mod=mod", GOPROXY="off")
demo = open(os.path.join(src, "demo_test.go")).read()
# where to copy the demo: look for a path hint in the header comment
m = re.search(r'(?:cp|copy)[^\n]*?\s((?:[\w./-]+/)?zz_demo[\w]*_test\.go)', demo) or re.search(r'((?:[\w-]+/)+zz_[\w]*_test\.go)', demo)
target = m.group(1) if m else None
if not target:
    pk = re.search(r'^package (\w+)', demo, re.M).group(1)
    sys.exit("cannot find demo target path; package " + pk)
target = target.lstrip("./")
run = re.search(r'-run\s+(\S+)', demo)
runpat = run.group(1).strip("'\"") if run else "."
pkgdir = "./" + os.path.dirname(target)
tmp = tempfile.mkdtemp(prefix="seedin-")
log = {}
def sh(cmd, cwd):
    r = subprocess.run(cmd, cwd=cwd, env=env, capture_output=True, text=True, shell=isinstance(cmd, str))
    return r.returncode, (r.stdout + r.stderr)[-1500:]
try:
    scratch = os.path.join(tmp, "repo")
    subprocess.run(["cp", "-a", "/repo", scratch], check=True)
    # demo on original
    shutil.copy(os.path.join(src, "demo_test.go"), os.path.join(scratch, target))
    rc0, out0 = sh(["go", "test", "-count=1", "-timeout", "120s", "-run", runpat, pkgdir], scratch)
    os.remove(os.path.join(scratch, target))
    rc, out = sh(["git", "apply", "--whitespace=nowarn", os.path.join(src, "patch.diff")], scratch)
    if rc != 0:
        sys.exit("patch does not apply: " + out)
    rcb, outb = sh("go build ./...", scratch)
    rct, outt = sh(["go", "test", "-count=1", "-timeout", "20m"] + pkgs, scratch)
    shutil.copy(os.path.join(src, "demo_test.go"), os.path.join(scratch, target))
    rc1, out1 = sh(["go", "test", "-count=1", "-timeout", "120s", "-run", runpat, pkgdir], scratch)
    ok = rc0 == 0 and rcb == 0 and rct == 0 and rc1 != 0
    print(f"{name}: demo-on-original={'PASS' if rc0==0 else 'FAIL'} build={'ok' if rcb==0 else 'FAIL'} existing-tests={'ok' if rct==0 else 'FAIL'} demo-with-change={'FAIL(expected)' if rc1!=0 else 'PASS(unexpected)'} => {'CONFIRMED' if ok else 'REJECTED'}")
    if not ok:
        print(out0[-400:], outb[-400:], outt[-600:], out1[-400:])
        sys.exit(1)
    d = os.path.join("/verif/seeded", name)
    os.makedirs(d, exist_ok=True)
    shutil.copy(os.path.join(src, "patch.diff"), d)
    shutil.copy(os.path.join(src, "demo_test.go"), d)
    if os.path.exists(os.path.join(src, "README.md")):
        shutil.copy(os.path.join(src, "README.md"), d)
    readme = open(os.path.join(src, "README.md")).read() if os.path.exists(os.path.join(src, "README.md")) else ""
    json.dump({"property": prop, "source": "independent sub-agent (given only the property text and a scratch worktree)",
               "demo_target": target, "demo_run": runpat,
               "needs": readme[:1200],
               "confirmed": {"demo_passes_on_original": True, "builds": True, "existing_tests_pass": pkgs, "demo_fails_with_change": True,
                             "commands": [f"go test -count=1 -run {runpat} {pkgdir}", "go build ./...", "go test -count=1 " + " ".join(pkgs)]}},
              open(os.path.join(d, "meta.json"), "w"), indent=1)
finally:
    shutil.rmtree(tmp, ignore_errors=True)
