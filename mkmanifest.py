#!/usr/bin/env python3
"""Regenerates /verif/MANIFEST.json from the table below (kept in one place so that the manifest
is always valid and the not_applicable list is always the complement of the claims)."""
import json, subprocess, os

HERE = os.path.dirname(os.path.abspath(__file__))
ALL = [json.loads(l)["id"] for l in open(os.path.join(HERE, "properties.jsonl"))]

TECH = "contract-based deductive verification: govc (home-made VC generator over go/ssa of /repo, contracts in //go:build verif files) + z3/cvc5 portfolio"

# id -> (level text, level note)
CLAIMS = {}
exec(open(os.path.join(HERE, "claims.py")).read())

NA = {}
exec(open(os.path.join(HERE, "not_applicable.py")).read())

def hook_commits():
    out = subprocess.run(["git", "-C", "/repo", "log", "--format=%H %s"], capture_output=True, text=True).stdout
    return [l.split()[0] for l in out.splitlines() if l.split(" ", 1)[1].startswith("verif:")]

checks = []
for pid in ALL:
    if pid not in CLAIMS:
        continue
    text, note, ref = CLAIMS[pid]
    checks.append({
        "property_id": pid,
        "quick_cmd": f"./check.sh {pid} quick",
        "thorough_cmd": f"./check.sh {pid} thorough",
        "evidence_file": f"/verif/evidence/{pid}.json",
        "replay_cmd_template": "./bin/govc replay {path}",
        "engine": "govc",
        "level_claimed": {"category": "proof", "text": text, "design_ref": ref},
        "level_note": note,
        "technique": TECH,
    })
na = [{"property_id": p, "reason": NA.get(p, "not yet under contract in this round; no check is registered, nothing is claimed")} for p in ALL if p not in CLAIMS]
m = {
    "version": 1,
    "setup_cmd": "./setup.sh",
    "hooks": {
        "guard": "verif",
        "enable": "go/packages loads /repo with BuildFlags -tags=verif; the only guarded files are zz_verif_contracts.go (comments + never-executed lemma functions)",
        "baseline_off_cmd": "cd /repo && go build ./... && go test -vet=off -count=1 -timeout 25m ./...",
        "source_commits": hook_commits(),
        "add_only": True,
    },
    "engines": [{"name": "govc", "path": "/verif/govc", "serves_properties": sorted(CLAIMS), "kind_free_text": "deductive verifier: weakest-precondition style symbolic execution of go/ssa (NaiveForm) per function under contract, modular calls, loop invariants, frame conditions, lemma functions; SMT-LIB2 obligations discharged by z3 5.1.0 / z3 4.8.12 / cvc5 1.0.3; counterexamples replayed with go test -overlay"}],
    "checks": checks,
    "not_applicable": na,
    "notes": "Every claimed check is decided by machine-checked contracts on the real functions (see DESIGN.md). Known findings: /verif/known_findings.json. Obligations a sweep could not discharge on the unchanged tree are listed per property under /verif/unproved/ and are never counted as discharged.",
}
json.dump(m, open(os.path.join(HERE, "MANIFEST.json"), "w"), indent=1)
print("claims:", sorted(CLAIMS), "n/a:", [x["property_id"] for x in na])
