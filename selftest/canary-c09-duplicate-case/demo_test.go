// copy to parser/zz_demo_test.go ; go test -run TestDuplicateCaseIsFoundWithOrWithoutComment ./parser
package parser

import (
	"testing"

	"github.com/ysugimoto/falco/v2/lexer"
)

// The same switch, with and without a comment after the second (duplicate) case label.
func TestDuplicateCaseIsFoundWithOrWithoutComment(t *testing.T) {
	plain := "sub vcl_recv {\n  switch (req.http.X) {\n  case \"a\":\n    esi;\n    break;\n  case \"a\":\n    esi;\n    break;\n  }\n}\n"
	commented := "sub vcl_recv {\n  switch (req.http.X) {\n  case \"a\":\n    esi;\n    break;\n  case \"a\" /* again */:\n    esi;\n    break;\n  }\n}\n"
	_, err1 := New(lexer.NewFromString(plain)).ParseVCL()
	_, err2 := New(lexer.NewFromString(commented)).ParseVCL()
	t.Logf("plain: %v", err1)
	t.Logf("commented: %v", err2)
	if (err1 == nil) != (err2 == nil) {
		t.Fatalf("a comment changes whether the duplicate case is reported")
	}
}
