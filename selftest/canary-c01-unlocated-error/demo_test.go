// copy to parser/zz_demo_test.go ; go test -run TestEveryParseErrorIsLocated ./parser
package parser

import (
	"testing"

	"github.com/pkg/errors"
	"github.com/ysugimoto/falco/v2/lexer"
)

func TestEveryParseErrorIsLocated(t *testing.T) {
	src := "sub vcl_recv {\n  set req.http.X = \"a\"(1);\n}\n"
	_, err := New(lexer.NewFromString(src)).ParseVCL()
	if err == nil {
		t.Fatal("expected a parse error")
	}
	pe, ok := errors.Cause(err).(*ParseError)
	t.Logf("error: %v (%T)", err, errors.Cause(err))
	if !ok {
		t.Fatalf("the error is not a *ParseError: it carries no line and column")
	}
	if pe.Token.Line != 2 || pe.Token.Position < 1 {
		t.Fatalf("line %d", pe.Token.Line)
	}
}
