// copy to linter/zz_demo_test.go ; go test -run TestStatementScopeGuardsNeedEveryAnnotatedScope ./linter
package linter

import (
	"testing"

	"github.com/ysugimoto/falco/v2/lexer"
	"github.com/ysugimoto/falco/v2/linter/context"
	"github.com/ysugimoto/falco/v2/parser"
)

// A subroutine annotated with the scopes recv and log may only use what BOTH scopes allow.
// `restart` is not available in vcl_log, `error` is not available in vcl_log,
// `synthetic` is not available in vcl_recv.
func TestStatementScopeGuardsNeedEveryAnnotatedScope(t *testing.T) {
	for _, c := range []struct{ name, src string }{
		{"restart", "// @scope: recv, log\nsub both {\n  restart;\n}\n"},
		{"error", "// @scope: recv, log\nsub both {\n  error 601;\n}\n"},
		{"synthetic", "// @scope: error, recv\nsub both {\n  synthetic \"x\";\n}\n"},
	} {
		vcl, err := parser.New(lexer.NewFromString(c.src)).ParseVCL()
		if err != nil {
			t.Fatal(err)
		}
		l := New(testConfig)
		l.lint(vcl, context.New())
		n := 0
		for _, e := range l.Errors {
			if e.Severity == ERROR {
				n++
			}
		}
		t.Logf("%s: %d error diagnostics %v", c.name, n, l.Errors)
		if n == 0 {
			t.Errorf("%s accepted in a subroutine that is also used in a scope that does not allow it", c.name)
		}
	}
}
