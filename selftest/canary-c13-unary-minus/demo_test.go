// copy to interpreter/zz_demo_test.go ; go test -run TestUnaryMinusDoesNotChangeItsOperand ./interpreter
package interpreter

import (
	"testing"

	"github.com/ysugimoto/falco/v2/ast"
	"github.com/ysugimoto/falco/v2/interpreter/context"
	"github.com/ysugimoto/falco/v2/interpreter/value"
	"github.com/ysugimoto/falco/v2/interpreter/variable"
	"github.com/ysugimoto/falco/v2/lexer"
	"github.com/ysugimoto/falco/v2/parser"
)

func TestUnaryMinusDoesNotChangeItsOperand(t *testing.T) {
	src := "sub vcl_recv {\n  declare local var.x INTEGER;\n  declare local var.y INTEGER;\n  set var.x = 5;\n  set var.y = -var.x;\n}\n"
	vcl, err := parser.New(lexer.NewFromString(src)).ParseVCL()
	if err != nil {
		t.Fatal(err)
	}
	sub := vcl.Statements[0].(*ast.SubroutineDeclaration)
	ip := New()
	ip.ctx = context.New()
	ip.localVars = variable.LocalVariables{}
	ip.SetScope(context.RecvScope)
	if _, _, _, err := ip.ProcessBlockStatement(sub.Block.Statements, DebugPass, false); err != nil {
		t.Fatal(err)
	}
	x, _ := ip.localVars.Get("var.x")
	y, _ := ip.localVars.Get("var.y")
	t.Logf("x=%v y=%v", x, y)
	if x.(*value.Integer).Value != 5 {
		t.Fatalf("var.x is %d after `set var.y = -var.x;`, expected 5", x.(*value.Integer).Value)
	}
}
