// copy to interpreter/zz_demo_test.go ; go test -run TestErrorMayReturnDeliverStale ./interpreter
package interpreter

import (
	"net/http"
	"net/http/httptest"
	"testing"

	"github.com/ysugimoto/falco/v2/interpreter/context"
	"github.com/ysugimoto/falco/v2/resolver"
)

// vcl_error may return deliver_stale (the linter accepts it, Fastly documents it); its successor is deliver.
func TestErrorMayReturnDeliverStale(t *testing.T) {
	vcl := `
backend example { .host = "127.0.0.1"; .port = "1"; }
sub vcl_recv { error 601; }
sub vcl_error { set obj.status = 200; return(deliver_stale); }
`
	ip := New(context.WithResolver(resolver.NewStaticResolver("main", vcl)))
	rec := httptest.NewRecorder()
	req := httptest.NewRequest(http.MethodGet, "http://localhost", nil)
	ip.ServeHTTP(rec, req)
	t.Logf("status=%d body=%q", rec.Result().StatusCode, rec.Body.String())
	if rec.Result().StatusCode != 200 {
		t.Fatalf("return(deliver_stale) in vcl_error is a runtime error: status %d", rec.Result().StatusCode)
	}
}
