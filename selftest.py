#!/usr/bin/env python3
"""Must-fail corpus: applies each patch under /verif/selftest/*/ and /verif/seeded/*/ to a scratch
copy of /repo (outside /repo and /verif, removed afterwards), runs the property's check against the
copy and expects a VIOLATION whose obligation name contains meta['expect'] (when given).
usage: selftest.py [-j N] [name ...]"""
import json, os, subprocess, sys, tempfile, shutil, glob, concurrent.futures as cf

HERE = os.path.dirname(os.path.abspath(__file__))

def run_one(d):
    name = os.path.basename(d.rstrip("/"))
    meta = json.load(open(os.path.join(d, "meta.json")))
    props = meta.get("checks") or [meta["property"]]
    tmp = tempfile.mkdtemp(prefix="govc-selftest-")
    scratch = os.path.join(tmp, "repo")
    try:
        subprocess.run(["cp", "-a", "/repo", scratch], check=True)
        r = subprocess.run(["git", "apply", "--whitespace=nowarn", os.path.join(d, "patch.diff")], cwd=scratch, capture_output=True, text=True)
        if r.returncode != 0:
            return name, "PATCH-FAILED", r.stderr.strip()[:300]
        env = dict(os.environ, GOVC_REPO=scratch, GOVC_VERIF=os.path.join(tmp, "verif"), GOFLAGS="-mod=mod", GOPROXY="off")
        os.makedirs(env["GOVC_VERIF"], exist_ok=True)
        for f in ("known_findings.json", "floors.json", "properties.jsonl", "dead_returns.txt"):
            shutil.copy(os.path.join(HERE, f), env["GOVC_VERIF"])
        if os.path.isdir(os.path.join(HERE, "unproved")):
            shutil.copytree(os.path.join(HERE, "unproved"), os.path.join(env["GOVC_VERIF"], "unproved"))
        caught, detail = False, []
        for p in props:
            r = subprocess.run([os.path.join(HERE, "bin/govc"), "check", p, "--tier", "quick"], env=env, capture_output=True, text=True)
            viol = [l for l in r.stdout.splitlines() if l.startswith("  obligation:")]
            exp = meta.get("expect", "")
            hit = [v for v in viol if exp in v]
            if r.returncode == 1 and hit:
                caught = True
                detail.append(f"{p}: " + hit[0].strip()[:160])
            else:
                detail.append(f"{p}: exit={r.returncode} violations={len(viol)} " + " | ".join(l for l in r.stdout.splitlines() if l.startswith("BROKEN"))[:200])
        return name, "CAUGHT" if caught else "MISSED", "; ".join(detail)
    finally:
        shutil.rmtree(tmp, ignore_errors=True)

def main():
    args = sys.argv[1:]
    j = 3
    if args[:1] == ["-j"]:
        j = int(args[1]); args = args[2:]
    dirs = sorted(glob.glob(os.path.join(HERE, "selftest", "*/")) + glob.glob(os.path.join(HERE, "seeded", "*/")))
    if args:
        dirs = [d for d in dirs if os.path.basename(d.rstrip("/")) in args]
    bad = 0
    with cf.ThreadPoolExecutor(j) as ex:
        for name, status, detail in ex.map(run_one, dirs):
            print(f"{status:13s} {name:40s} {detail}")
            if status != "CAUGHT":
                bad += 1
    print(f"{len(dirs)-bad}/{len(dirs)} caught")
    sys.exit(1 if bad else 0)

if __name__ == "__main__":
    main()
