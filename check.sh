#!/bin/sh
# check.sh <property> <tier>: rebuilds nothing but reloads /repo's current working tree with -tags=verif.
cd "$(dirname "$0")"
export GOFLAGS=-mod=mod GOPROXY=off
[ -x bin/govc ] || ./setup.sh >/dev/null 2>&1
exec ./bin/govc check "$1" --tier "${2:-${VERIF_TIER:-quick}}"
