#!/bin/sh
# Build the verifier from files on disk only (offline).
set -e
cd "$(dirname "$0")/govc"
export GOFLAGS=-mod=mod GOPROXY=off
mkdir -p ../bin
go build -o ../bin/govc .
