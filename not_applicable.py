NA = {
 "C14": "Idempotence is a relation between two runs of Format∘Parse over unbounded text; no per-function contract within reach of the SMT back ends expresses or decides it (DESIGN.md §5). Not switching technique.",
 "C20": "Generated VCL goes through text/template's reflective interpreter over template strings; no falco function carries a contract that could state the property, and unbounded string transduction is outside the decidable fragment (DESIGN.md §5).",
 "C03": "Relates two whole-program runs (parse, format, parse again) over unbounded text and Go string building; it needs the tree specification that C02 lacks plus a functional specification of the layout engine. Not reached with contracts; nothing is claimed (DESIGN.md §0.7).",
 "C15": "Comment preservation relates the parser's comment attachment to the formatter's output text over unbounded input; it needs a multiset specification of comments through parse and format, which string-level SMT reasoning over Go string building does not decide. Not reached; nothing is claimed (DESIGN.md §0.7).",
}
