NA = {
 "C14": "Idempotence is a relation between two runs of Format∘Parse over unbounded text; no per-function contract within reach of the SMT back ends expresses or decides it (DESIGN.md §5). Not switching technique.",
 "C20": "Generated VCL goes through text/template's reflective interpreter over template strings; no falco function carries a contract that could state the property, and unbounded string transduction is outside the decidable fragment (DESIGN.md §5).",
}
